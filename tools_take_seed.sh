#!/bin/bash
# usage: tools_take_seed.sh <PROP> <seed-id> <what> <needs>
# confirm an agent's seeded change in /tmp/wt-<PROP>, store it under seeded/<id>, remove the worktree, run the property's quick check against it
set -u
P=$1; ID=$2; WHAT=$3; NEEDS=$4
cd /verif
bash tools_confirm_seed.sh /tmp/wt-$P $ID $P 2>&1 | tail -2 | tee /tmp/confirm-$ID.txt
grep -q "unexpected test failures: 0; demo with change rc=[1-9][0-9]* (want != 0); demo on unchanged rc=0" /tmp/confirm-$ID.txt || { echo "NOT CONFIRMED: $ID"; exit 1; }
HEAD=$(git -C /repo rev-parse --short HEAD)
python3 - "$P" "$ID" "$WHAT" "$NEEDS" "$HEAD" <<'PY'
import json,sys
p,i,w,n,h=sys.argv[1:6]
json.dump({"property":p,"origin":"sub-agent","what":w,"needs":n,"ran":{"confirmed":"patch applies to /repo HEAD (%s); built; cargo test -p bindgen-tests --test tests (only the 3 always-failing tests fail) and -p bindgen --lib re-run by me in the scratch worktree; demo.sh fails with the change and passes on /repo's unchanged build (demo_changed.log / demo_base.log)"%h}},open("/verif/seeded/%s/meta.json"%i,"w"),indent=1)
PY
git -C /repo worktree remove --force /tmp/wt-$P
rm -f /tmp/confirm-$ID.txt
if [ -z "${NO_RUN:-}" ]; then python3 tools_seeded.py $ID 2>&1 | tail -2; else echo "stored $ID (check not run: NO_RUN set)"; fi
