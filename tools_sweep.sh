#!/bin/bash
# usage: tools_sweep.sh <tier> <seed>...   runs every registered check at the given seeds in the copy of /verif the script lives in; prints one line per (check, seed)
tier=$1; shift
cd "$(dirname "$(readlink -f "$0")")"
for sd in "$@"; do
  for c in $(python3 -c "import json; print(' '.join(x['property_id'] for x in json.load(open('MANIFEST.json'))['checks']))"); do
    out=$(VERIF_SEED=$sd ./vf check $c --tier $tier 2>&1)
    rc=$?
    echo "seed=$sd $c rc=$rc $(echo "$out" | grep "^$c tier=" | tail -1 | cut -c1-160)"
    if [ $rc -ne 0 ]; then echo "$out" | grep -A3 "^VIOLATION\|BROKEN\|HARNESS" | head -24; fi
  done
done
