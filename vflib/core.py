"""Core of the verification framework: seeds, scratch space, parallel case
execution, three-valued verdicts, evidence, replays and known findings."""
import concurrent.futures as cf
import hashlib
import json
import os
import random
import shutil
import subprocess
import sys
import threading
import time
import traceback

VERIF = os.path.dirname(os.path.dirname(os.path.abspath(__file__)))
REPO = os.environ.get("VF_REPO", "/repo")
BUILD = os.path.join(VERIF, ".build")
TARGET = os.path.join(BUILD, "target")
EVIDENCE = os.path.join(VERIF, "evidence")
REPLAYS = os.path.join(VERIF, "replays")
NCPU = int(os.environ.get("VF_JOBS", str(os.cpu_count() or 8)))

HELD, VIOLATED, INCONCLUSIVE, KNOWN = "held", "violated", "inconclusive", "known"


class HarnessError(Exception):
    """Something in *our* tooling failed: never a verdict about bindgen."""


def sha(*parts):
    h = hashlib.sha256()
    for p in parts:
        h.update(str(p).encode("utf-8", "surrogateescape"))
        h.update(b"\0")
    return h.hexdigest()


def run(cmd, *, cwd=None, env=None, input=None, timeout=300, cpu=None, text=True):
    """Run a child; returns (rc, stdout, stderr, info). rc=None on our own
    wall-clock watchdog (inconclusive, never a verdict)."""
    e = dict(os.environ)
    if env:
        e.update(env)
    pre = None
    if cpu:
        import resource

        def pre():
            resource.setrlimit(resource.RLIMIT_CPU, (cpu, cpu + 5))
            resource.setrlimit(resource.RLIMIT_CORE, (0, 0))
    t0 = time.time()
    try:
        p = subprocess.run(cmd, cwd=cwd, env=e, input=input, timeout=timeout,
                           capture_output=True, text=text, preexec_fn=pre,
                           errors="replace" if text else None)
        return p.returncode, p.stdout, p.stderr, {"wall": time.time() - t0}
    except subprocess.TimeoutExpired as ex:
        out = ex.stdout or ("" if text else b"")
        err = ex.stderr or ("" if text else b"")
        if text and isinstance(out, bytes):
            out = out.decode("utf-8", "replace")
        if text and isinstance(err, bytes):
            err = err.decode("utf-8", "replace")
        return None, out, err, {"wall": time.time() - t0, "timeout": True}


class Verdict:
    __slots__ = ("status", "case", "what", "files", "obs", "nontrivial", "key", "signature", "sample")

    def __init__(self, status, case, what="", files=None, obs=None, nontrivial=False,
                 key=None, signature=None, sample=None):
        self.status = status
        self.case = case
        self.what = what
        self.files = files or {}
        self.obs = obs or {}          # counters of what the monitor observed
        self.nontrivial = nontrivial  # per the check's stated rule
        self.key = key                # distinctness key
        self.signature = signature    # for known-finding matching (violations)
        self.sample = sample


class Check:
    """One run of one property's check."""

    def __init__(self, pid, tier=None, seed=None, level="exploration"):
        self.pid = pid
        self.tier = tier or os.environ.get("VERIF_TIER") or "quick"
        if self.tier not in ("quick", "thorough"):
            self.tier = "quick"
        self.seed = int(seed if seed is not None else os.environ.get("VERIF_SEED", "1") or 1)
        self.level = level
        self.t0 = time.time()
        self._tls = threading.local()
        self._dir_lock = threading.Lock()
        self._dir_owner = {}
        self.scratch = os.path.join(BUILD, "run-%s-%d" % (pid, os.getpid()))
        shutil.rmtree(self.scratch, ignore_errors=True)
        os.makedirs(self.scratch, exist_ok=True)
        self.verdicts = []
        self.obs = {}
        self.samples = []
        self.keys = set()
        self.nviol = 0
        self.known_hits = {}
        self.stale = []
        self.notes = []
        self.findings = load_findings(pid)
        shutil.rmtree(os.path.join(REPLAYS, pid), ignore_errors=True)
        self.budget_hit = False

    # ---- randomness -------------------------------------------------
    def rng(self, *key):
        return random.Random(int(sha(self.seed, self.pid, *key)[:16], 16))

    def quick(self):
        return self.tier == "quick"

    def pick(self, q, t):
        return q if self.tier == "quick" else t

    def dir(self, name):
        """Scratch directory for the running case.  Names are re-used across cases (`c%d` % (i % 48)) to bound disk use; a case that is
        still running (valgrind, Miri) keeps its directory: a concurrent case asking for the same name gets a private alternative."""
        name = str(name)
        tok = getattr(self._tls, "token", None)
        if tok is None:
            d = os.path.join(self.scratch, name)
            os.makedirs(d, exist_ok=True)
            return d
        with self._dir_lock:
            mine = self._tls.dirs
            if name in mine:
                real = mine[name]
            else:
                real, k = name, 0
                while self._dir_owner.get(real) not in (None, tok):
                    k += 1
                    real = "%s~%d" % (name, k)
                self._dir_owner[real] = tok
                mine[name] = real
                if k:
                    self.obs["scratch_dir_collisions_avoided"] = self.obs.get("scratch_dir_collisions_avoided", 0) + 1
        d = os.path.join(self.scratch, real)
        os.makedirs(d, exist_ok=True)
        return d

    # ---- execution --------------------------------------------------
    def map(self, fn, cases, budget_s=None, jobs=None):
        """Run fn(case) -> Verdict | [Verdict] in parallel; exceptions in our
        own code become `inconclusive` verdicts (never violations)."""
        deadline = time.time() + budget_s if budget_s else None
        jobs = jobs or NCPU
        results = []

        def wrap(c):
            if deadline and time.time() > deadline:
                self.budget_hit = True
                return []
            self._tls.token = object()
            self._tls.dirs = {}
            try:
                r = fn(c)
            except HarnessError as ex:
                r = Verdict(INCONCLUSIVE, str(c)[:80], "harness: %s" % ex)
            except Exception:
                r = Verdict(INCONCLUSIVE, str(c)[:80], "harness exception: " + traceback.format_exc()[-1500:])
            finally:
                with self._dir_lock:
                    for real in self._tls.dirs.values():
                        self._dir_owner.pop(real, None)
                        if "~" in real:
                            shutil.rmtree(os.path.join(self.scratch, real), ignore_errors=True)
                self._tls.token = None
                self._tls.dirs = {}
            if r is None:
                return []
            return r if isinstance(r, list) else [r]

        with cf.ThreadPoolExecutor(max_workers=jobs) as ex:
            for rs in ex.map(wrap, cases):
                for r in rs:
                    self.add(r)
                    results.append(r)
        return results

    def add(self, v):
        self.verdicts.append(v)
        for k, n in v.obs.items():
            if isinstance(n, (int, float)):
                self.obs[k] = self.obs.get(k, 0) + n
        if v.nontrivial:
            self.keys.add(v.key if v.key is not None else v.case)
        if v.sample is not None and len(self.samples) < 6:
            self.samples.append(v.sample)
        if v.status == VIOLATED:
            f = self.match_finding(v)
            if f is not None:
                v.status = KNOWN
                self.known_hits.setdefault(f["id"], []).append(v.case)
            else:
                self.report_violation(v)

    def count(self, key, n=1):
        self.obs[key] = self.obs.get(key, 0) + n

    # ---- known findings --------------------------------------------
    def match_finding(self, v):
        if not v.signature:
            return None
        for f in self.findings:
            if f.get("status") == "open" and v.signature in f.get("signatures", []):
                return f
        return None

    def report_violation(self, v):
        self.nviol += 1
        d = os.path.join(REPLAYS, self.pid, "%s-seed%d" % (safe(v.case), self.seed))
        shutil.rmtree(d, ignore_errors=True)
        os.makedirs(d, exist_ok=True)
        for name, content in v.files.items():
            p = os.path.join(d, name)
            os.makedirs(os.path.dirname(p), exist_ok=True)
            mode = "wb" if isinstance(content, bytes) else "w"
            with open(p, mode) as fh:
                fh.write(content)
        with open(os.path.join(d, "case.json"), "w") as fh:
            json.dump({"property": self.pid, "case": v.case, "seed": self.seed, "tier": self.tier,
                       "what": v.what, "signature": v.signature, "obs": v.obs}, fh, indent=1)
        if self.nviol <= 25:
            print("VIOLATION property=%s replay=%s" % (self.pid, d))
            print("  what: %s" % v.what.replace("\n", "\n        ")[:2000])
            sys.stdout.flush()

    # ---- finishing --------------------------------------------------
    def finish(self, rule, coverage_extra=None, assumptions=None, min_nontrivial=2, exhaustive=False):
        n = len(self.verdicts)
        inconc = [v for v in self.verdicts if v.status == INCONCLUSIVE]
        for fid, cases in sorted(self.known_hits.items()):
            f = [x for x in self.findings if x["id"] == fid][0]
            print("KNOWN-FINDING: property=%s %s [%s; %d case(s) this run, e.g. %s]" % (
                self.pid, f["what"], fid, len(cases), cases[0]))
        for f in self.findings:
            if f.get("status") == "open" and f["id"] not in self.known_hits and f.get("must_reproduce", True):
                print("STALE-FINDING: property=%s %s did not reproduce in this run" % (self.pid, f["id"]))
        cov = {
            "evaluations": n,
            "distinct_nontrivial": len(self.keys),
            "rule": rule,
            "samples": self.samples[:6] or [v.case for v in self.verdicts[:3]],
            "observed": {k: (round(x, 3) if isinstance(x, float) else x) for k, x in sorted(self.obs.items())},
            "held": sum(1 for v in self.verdicts if v.status == HELD),
            "violated": self.nviol,
            "known_finding_cases": {k: len(c) for k, c in self.known_hits.items()},
            "inconclusive": len(inconc),
            "inconclusive_examples": [("%s: %s" % (v.case, v.what))[:300] for v in inconc[:5]],
            "budget_hit": self.budget_hit,
            "exhaustive": bool(exhaustive),
        }
        if self.notes:
            cov["notes"] = self.notes[:20]
        if coverage_extra:
            cov.update(coverage_extra)
        ev = {
            "property_id": self.pid, "tier": self.tier, "seed": self.seed, "level": self.level,
            "coverage": cov, "assumptions": assumptions or [], "wall_s": round(time.time() - self.t0, 2),
            "violations": self.nviol,
        }
        os.makedirs(EVIDENCE, exist_ok=True)
        tmp = os.path.join(EVIDENCE, ".%s.json.tmp%d" % (self.pid, os.getpid()))
        with open(tmp, "w") as fh:
            json.dump(ev, fh, indent=1, sort_keys=True, default=str)
        os.replace(tmp, os.path.join(EVIDENCE, "%s.json" % self.pid))
        shutil.rmtree(self.scratch, ignore_errors=True)
        print("%s tier=%s seed=%d: %d evaluations, %d distinct non-trivial, %d held, %d violated, "
              "%d known-finding, %d inconclusive, %.1fs" % (
                  self.pid, self.tier, self.seed, n, len(self.keys), cov["held"], self.nviol,
                  sum(len(c) for c in self.known_hits.values()), len(inconc), time.time() - self.t0))
        print("  observed: " + ", ".join("%s=%s" % kv for kv in sorted(cov["observed"].items()))[:1500])
        if self.nviol:
            return 1
        if n == 0 or len(self.keys) < min_nontrivial:
            print("BROKEN-CHECK: too few non-trivial cases (%d)" % len(self.keys))
            return 2
        if len(inconc) > 0.2 * n:
            print("BROKEN-CHECK: %d of %d cases inconclusive" % (len(inconc), n))
            for v in inconc[:5]:
                print("   ", v.case, v.what[:300])
            return 2
        return 0


def safe(s):
    return "".join(ch if ch.isalnum() or ch in "-_." else "_" for ch in str(s))[:80]


def load_findings(pid):
    p = os.path.join(VERIF, "known_findings.json")
    if not os.path.exists(p):
        return []
    with open(p) as fh:
        data = json.load(fh)
    return [f for f in data.get("findings", []) if f.get("property") == pid]


def write(path, content):
    os.makedirs(os.path.dirname(path), exist_ok=True)
    with open(path, "wb" if isinstance(content, bytes) else "w") as fh:
        fh.write(content)
    return path


def read(path, binary=False):
    with open(path, "rb" if binary else "r", errors=None if binary else "replace") as fh:
        return fh.read()
