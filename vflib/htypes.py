"""H-TYPES harness driver: header -> clang probe object; per option set:
bindgen -> inventory -> rust probe -> link -> run -> compare."""
import json
import os

from . import build, probes
from . import gen_ctypes as G
from .core import HarnessError, run, write

RUSTC_FLAGS = ["--edition", "2021", "-C", "debug-assertions=on", "-C", "overflow-checks=on", "-A", "warnings",
               "-C", "opt-level=0", "-C", "codegen-units=4"]


def inventory(path):
    rc, out, err, _ = run([build.INV, path], timeout=120)
    try:
        d = json.loads(out.splitlines()[0])
    except Exception:
        raise HarnessError("vf-inv failed on %s: %s %s" % (path, out[:200], err[:200]))
    return d


def bindgen(header, flags, out_path, clang_args=(), env=None, timeout=120):
    cmd = [build.BINDGEN, header] + list(flags) + ["-o", out_path] + (["--"] + list(clang_args) if clang_args else [])
    return run(cmd, timeout=timeout, env=env, cpu=120)


class HeaderProbe:
    """One generated header and its clang-compiled probe object."""

    def __init__(self, d, model, recs=None, clang_args=()):
        self.d = d
        self.model = model
        self.recs = recs if recs is not None else [r for r in model.records]
        self.clang_args = list(clang_args)
        self.header = write(os.path.join(d, "h.h"), model.header())
        self.csrc = write(os.path.join(d, "probe.c"), probes.emit_c(model, self.recs))
        self.obj = os.path.join(d, "probe.o")
        rc, out, err, _ = run(["clang", "-w", "-O0", "-g", "-gdwarf-4", "-mcmodel=medium", "-c", self.csrc, "-o", self.obj, "-I", d] + self.clang_args, timeout=120)
        if rc != 0:
            raise HarnessError("clang rejected generated probe: " + err[:1500])

    def files(self):
        return {"h.h": open(self.header).read(), "probe.c": open(self.csrc).read()}

    def run_optset(self, tag, flags, valgrind=False, layout_only=False, layout_only_recs=(), bindgen_env=None):
        """Returns dict(status, mism, obs, info, files, stage)."""
        d = self.d
        b = os.path.join(d, "b_%s.rs" % tag)
        rc, out, err, _ = bindgen(self.header, flags, b, self.clang_args)
        res = {"flags": flags, "files": {"flags.txt": " ".join(flags)}, "obs": {}, "mism": [], "info": {}}
        if rc is None:
            res.update(status="inconclusive", stage="bindgen-timeout")
            return res
        if rc != 0:
            res.update(status="bindgen-failed", stage="bindgen", stderr=err[-3000:], rc=rc)
            return res
        res["files"]["bindings.rs"] = open(b).read()
        inv = inventory(b)
        if "error" in inv:
            res.update(status="unparsable", stage="syn", stderr=inv["error"])
            return res
        view = probes.RustView(inv)
        src, info = probes.emit_rs(self.model, self.recs, view, b, c_naming="--c-naming" in flags,
                                    namespaces="--enable-cxx-namespaces" in flags, layout_only=layout_only,
                                    layout_only_recs=layout_only_recs)
        res["info"] = info
        res["inv"] = inv
        prs = write(os.path.join(d, "probe_%s.rs" % tag), src)
        exe = os.path.join(d, "probe_%s" % tag)
        rc, out, err, _ = run(["rustc"] + RUSTC_FLAGS + [prs, "-C", "link-arg=" + self.obj, "-o", exe], timeout=300)
        res["files"]["probe.rs"] = src
        if rc != 0:
            res.update(status="rustc-failed", stage="rustc", stderr=err[-6000:])
            return res
        cmd = [exe]
        if valgrind:
            cmd = ["valgrind", "-q", "--error-exitcode=97", "--leak-check=no"] + cmd
        rc, out, err, _ = run(cmd, timeout=600 if valgrind else 60)
        res["files"]["probe.out"] = out if len(out) < 400000 else out[:250000] + "\n...[truncated]...\n" + out[-150000:]
        res["bo"] = probes.parse_bo(out)
        if rc != 0:
            res.update(status="probe-crashed", stage="run", stderr=err[-3000:], rc=rc)
            return res
        mism, obs = probes.compare(out, self.model, self.recs, info)
        res.update(status="ok", mism=mism, obs=obs)
        try:
            os.unlink(exe)
        except OSError:
            pass
        return res


# ----------------------------------------------------------------------------
# classification of one (header, option set) result into verdict material
# ----------------------------------------------------------------------------
import re  # noqa: E402

ASSERT_RE = re.compile(r'\["((?:Size|Alignment|Offset) of[^"]*)"\]')


def classify(res, tag, model=None):
    """Returns list of (kind, what, signature) problems; kind in
    violation | inconclusive. Empty list = held."""
    st = res["status"]
    out = []
    if st == "inconclusive":
        return [("inconclusive", res.get("stage", ""), None)]
    if st == "bindgen-failed":
        err = res.get("stderr", "")
        if "panicked at" in err:
            return [("violation", "bindgen panicked on a clang-accepted header: " + err[-600:], "c12.panic:" + panic_site(err))]
        return [("violation", "bindgen failed (exit %s) on a clang-accepted header: %s" % (res.get("rc"), err[-600:]), None)]
    if st == "unparsable":
        return [("violation", "bindings do not parse as Rust: " + res.get("stderr", ""), None)]
    if st == "rustc-failed":
        err = res["stderr"]
        # primary location of every error
        locs = re.findall(r"^error[^\n]*\n\s*--> (\S+?):\d+:\d+", err, re.M)
        in_bindings = [l for l in locs if l.endswith("/b_%s.rs" % tag)]
        asserts = ASSERT_RE.findall(err)
        if re.search(r"^error\[E058[78]\]", err, re.M):
            # rustc cannot lay the type out at all (packed vs align): every assertion that follows is a consequence. C01's recorded findings.
            return [("deferred-c01", "rustc rejects the bindings: " + first_error(err), "c01.packed-contains-aligned")]
        if asserts and "E0080" in err:
            for a in asserts[:6]:
                out.append(("violation", "layout assertion in the bindings fails to evaluate: %s\n%s" % (a, first_error(err)), None))
            return out
        if in_bindings:
            codes = sorted(set(re.findall(r"^error\[(E\d+)\]", err, re.M)))
            return [("deferred-c01", "rustc rejects the bindings: " + first_error(err), "rustc:" + ",".join(codes))]
        return [("inconclusive", "rustc rejected the probe (harness): " + first_error(err), None)]
    if st == "probe-crashed":
        err = res.get("stderr", "")
        bo = res.get("bo") or probes.parse_bo(res["files"].get("probe.out", ""))
        over = probes.span_over_64(bo)
        m = re.search(r"panicked at (\S+?):\d+:\d+:\n([^\n]*)", err)
        if m and ("/b_%s.rs" % tag) in m.group(1):
            sig = None
            msg = m.group(2)
            if over and ("shift left with overflow" in msg or "shift right with overflow" in msg):
                sig = "c03.unit-span-over-64"
            if "construct an enum from an invalid value" in msg and model is not None and signed_enum_bitfield(model):
                # a negative enumerator read back zero-extended from a narrower bit-field is not a valid variant
                sig = "c03.signed-getter-zero-extended"
            return [("violation", "generated accessor panicked: %s (bit-fields spanning > 64 bits in model: %s)" % (msg, over[:3]), sig)]
        if res.get("rc") == 97:
            return [("violation", "valgrind memcheck reported an error in the probe run: " + err[-1500:], None)]
        return [("inconclusive", "probe crashed outside the bindings: rc=%s %s" % (res.get("rc"), err[-400:]), None)]
    hole_anon = model is not None and anon_member_after_zero_width(model)
    for mm in res["mism"]:
        if mm.kind == "harness":
            out.append(("inconclusive", mm.text, None))
        else:
            sig = mm.sig
            if sig is None and hole_anon and re.search(r"offset/size|says `V |bytes differ|fill \d+", mm.text):
                # recorded: the hole a zero-width bit-field opens in front of an ANONYMOUS struct/union member is padded behind that member
                # (libclang reports no offset for anonymous members), so everything inside it is read from the wrong bytes
                sig = "c02.hole-before-anonymous-member"
            out.append(("violation", mm.text, sig))
    for (tn, path, why) in res["info"].get("hidden", []):
        out.append(("violation", "member %s.%s of the C type is not reachable through the bindings: %s" % (tn, path, why),
                    "c02.hidden:" + why.replace(" ", "-")))
    return out


def anon_member_after_zero_width(model):
    def walk(rec):
        prev_zero = False
        for f in rec.fields:
            if f.inline is not None:
                if f.name is None and prev_zero:
                    return True
                if walk(f.inline):
                    return True
            prev_zero = (f.bits == 0) or (prev_zero and f.bits == 0)
            if f.bits != 0:
                prev_zero = False
        return False
    return any(walk(r) for r in model.records)


def first_error(err):
    m = re.search(r"error(\[E\d+\])?: [^\n]*(\n[^\n]*){0,6}", err)
    return m.group(0)[:900] if m else err[:600]


def panic_site(err):
    m = re.search(r"panicked at ([^\n:]+):(\d+)", err)
    return "%s" % (m.group(1).split("/")[-1] if m else "?")


def signed_enum_bitfield(model):
    from . import gen_ctypes as G

    def walk(rec):
        for f in rec.fields:
            if f.inline is not None:
                if walk(f.inline):
                    return True
            elif f.bits is not None:
                t = G.resolve(f.ty)
                if isinstance(t, G.EnumRef) and t.enum.signed and f.bits < 64:      # (enums with 64-bit underlying types have fields of 33..63 bits too)
                    return True
        return False
    return any(walk(r) for r in model.records)
