"""Builds bindgen-cli (hooks on) from /repo's working tree and the helper crates."""
import fcntl
import os
import subprocess
import sys

from .core import BUILD, REPO, TARGET, VERIF, HarnessError

BINDGEN = os.path.join(TARGET, "release", "bindgen")
RS_TARGET = os.path.join(BUILD, "rs-target")
DRIVER = os.path.join(RS_TARGET, "release", "vf-driver")
INV = os.path.join(RS_TARGET, "release", "vf-inv")
BF = os.path.join(RS_TARGET, "release", "vf-bf")

ENV = {
    "RUSTFLAGS": "--cfg bindgen_verif",
    "CARGO_NET_OFFLINE": "true",
    "CARGO_PROFILE_RELEASE_DEBUG_ASSERTIONS": "true",
    "CARGO_PROFILE_RELEASE_OVERFLOW_CHECKS": "true",
    "CARGO_TERM_COLOR": "never",
}

_done = {}


def _cargo(args, cwd, target):
    env = dict(os.environ)
    env.update(ENV)
    env["CARGO_TARGET_DIR"] = target
    p = subprocess.run(["cargo"] + args, cwd=cwd, env=env, capture_output=True, text=True)
    if p.returncode != 0:
        sys.stderr.write(p.stdout[-3000:] + p.stderr[-6000:])
        raise HarnessError("cargo %s failed in %s" % (" ".join(args), cwd))


def _locked(name, fn):
    os.makedirs(BUILD, exist_ok=True)
    with open(os.path.join(BUILD, ".%s.lock" % name), "w") as lk:
        fcntl.flock(lk, fcntl.LOCK_EX)
        fn()


def build_cli():
    """bindgen-cli, release + debug-assertions + overflow-checks, hooks compiled in."""
    if _done.get("cli"):
        return BINDGEN
    _locked("cli", lambda: _cargo(["build", "--release", "--offline", "-p", "bindgen-cli"], REPO, TARGET))
    _done["cli"] = True
    return BINDGEN


def build_rs(packages=("vf-driver", "vf-inv", "vf-bf")):
    key = "rs:" + ",".join(packages)
    if _done.get(key):
        return
    from . import gen_methods
    gen_methods.generate()
    args = ["build", "--release", "--offline"]
    for p in packages:
        args += ["-p", p]
    _locked("rs", lambda: _cargo(args, os.path.join(VERIF, "rs"), RS_TARGET))
    _done[key] = True


def build_all():
    build_cli()
    build_rs()
