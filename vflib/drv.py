"""Thin wrapper around vf-driver."""
import json
import os

from . import build
from .core import HarnessError, run, write


def drive(spec, d, name="spec", timeout=600, env=None, cpu=None):
    p = write(os.path.join(d, name + ".json"), json.dumps(spec))
    rc, out, err, info = run([build.DRIVER, p], timeout=timeout, env=env, cpu=cpu)
    res = None
    if out.strip():
        try:
            res = json.loads(out.strip().splitlines()[-1])
        except ValueError:
            res = None
    return rc, res, err, info
