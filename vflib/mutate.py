"""Token- and line-level mutators for header text."""
import re

TOK = re.compile(r"[A-Za-z_][A-Za-z0-9_]*|0[xX][0-9a-fA-F]+|\d+\.?\d*|\"(?:\\.|[^\"\\])*\"|'(?:\\.|[^'\\])*'|\s+|.", re.S)
KEYWORDS = ["int", "char", "unsigned", "struct", "union", "enum", "typedef", "const", "static", "void", "long", "short",
            "float", "double", "template", "class", "namespace", "virtual", "public", "private", "operator", "inline",
            "extern", "volatile", "signed", "sizeof", "typename", "using", "friend", "auto", "decltype", "constexpr",
            "type", "match", "fn", "impl", "self", "Self", "async", "dyn", "mod", "ref", "box", "loop", "where", "u8", "str"]
LITERALS = ["0", "1", "-1", "0xFFFFFFFFFFFFFFFF", "2147483648", "1e308", "'\\0'", "\"\"", "18446744073709551615ULL", "0x80000000",
            "(1/0)", "(1<<63)", "sizeof(int)", "__LINE__", "-9223372036854775807LL-1"]


def tokens(text):
    return TOK.findall(text)


def mutate(text, rng, donors=()):
    """Returns (mutated text, operator name)."""
    ops = ["del_tok", "dup_tok", "swap_tok", "del_line", "dup_line", "swap_line", "ident_kw", "literal", "splice", "brace", "ident_rename"]
    op = rng.choice(ops)
    lines = text.split("\n")
    toks = tokens(text)
    sig = [i for i, t in enumerate(toks) if not t.isspace()]
    if not sig:
        return text + "\nint x;\n", "append"
    if op == "del_tok":
        i = rng.choice(sig)
        del toks[i]
        return "".join(toks), op
    if op == "dup_tok":
        i = rng.choice(sig)
        toks.insert(i, toks[i] + " ")
        return "".join(toks), op
    if op == "swap_tok" and len(sig) > 1:
        a, b = rng.sample(sig, 2)
        toks[a], toks[b] = toks[b], toks[a]
        return "".join(toks), op
    if op == "del_line" and len(lines) > 1:
        del lines[rng.randrange(len(lines))]
        return "\n".join(lines), op
    if op == "dup_line":
        i = rng.randrange(len(lines))
        lines.insert(i, lines[i])
        return "\n".join(lines), op
    if op == "swap_line" and len(lines) > 1:
        a, b = rng.sample(range(len(lines)), 2)
        lines[a], lines[b] = lines[b], lines[a]
        return "\n".join(lines), op
    if op == "ident_kw":
        ids = [i for i in sig if re.match(r"[A-Za-z_]", toks[i])]
        if ids:
            toks[rng.choice(ids)] = rng.choice(KEYWORDS)
            return "".join(toks), op
    if op == "ident_rename":
        ids = [i for i in sig if re.match(r"[A-Za-z_]", toks[i]) and toks[i] not in KEYWORDS]
        if ids:
            old = toks[rng.choice(ids)]
            new = rng.choice(["type_", "self", "Self_", "_", "r#x", "a$b", old + "_", "root", "std", "core", "Option", "Box", old[::-1] or "q"])
            return "".join(new if t == old else t for t in toks), op
    if op == "literal":
        lits = [i for i in sig if re.match(r"\d|\"|'", toks[i])]
        if lits:
            toks[rng.choice(lits)] = rng.choice(LITERALS)
            return "".join(toks), op
    if op == "splice" and donors:
        dl = rng.choice(donors).split("\n")
        a = rng.randrange(len(dl))
        chunk = dl[a:a + rng.randint(1, 8)]
        i = rng.randrange(len(lines) + 1)
        return "\n".join(lines[:i] + chunk + lines[i:]), op
    if op == "brace":
        i = rng.choice(sig)
        toks.insert(i, rng.choice(["{", "}", "(", ")", ";", "<", ">", "*", "&", "::", "[", "]", "#"]))
        return "".join(toks), op
    i = rng.choice(sig)
    del toks[i]
    return "".join(toks), "del_tok"
