"""Seeded generator of C type graphs together with a layout-agnostic model.

The model knows *what was declared* (names, member paths, declared types,
bit-field widths, attributes); it does not know any layout number: those come
from clang (the specification) and from rustc (bindgen's output)."""


class Ty:
    pass


class Scalar(Ty):
    def __init__(self, c, kind, signed=False, bits=0):
        self.c = c          # C spelling
        self.kind = kind    # int | bool | float | ptr | fnptr | enum
        self.signed = signed
        self.bits = bits

    def decl(self, name):
        return "%s %s" % (self.c, name)

    def has_float(self):
        return self.kind == "float"


class Ptr(Scalar):
    def __init__(self, target_c):
        Scalar.__init__(self, target_c + " *", "ptr", False, 64)

    def decl(self, name):
        return "%s%s" % (self.c, name)


class FnPtr(Scalar):
    def __init__(self, ret, args, via_typedef=None):
        Scalar.__init__(self, "fnptr", "fnptr", False, 64)
        self.ret, self.args = ret, args
        self.via_typedef = via_typedef     # name of a typedef of the function TYPE (`typedef R name(args);`), used as `name *member`

    def decl(self, name):
        if self.via_typedef:
            return "%s *%s" % (self.via_typedef, name)
        return "%s (*%s)(%s)" % (self.ret, name, ", ".join(self.args) or "void")


class EnumRef(Scalar):
    def __init__(self, enum):
        Scalar.__init__(self, "enum " + enum.name, "enum", enum.signed, 32)
        self.enum = enum


class TypedefRef(Ty):
    """Use of a typedef name; `target` is the aliased type."""
    def __init__(self, name, target):
        self.name, self.target = name, target

    def decl(self, name):
        return "%s %s" % (self.name, name)


class Array(Ty):
    def __init__(self, elem, dims):
        self.elem, self.dims = elem, dims   # dims: list[int]; [] never; 0 allowed as last field (zero-length)

    def decl(self, name):
        return self.elem.decl(name + "".join("[%s]" % ("" if d is None else d) for d in self.dims))


class RecordRef(Ty):
    def __init__(self, rec):
        self.rec = rec

    def decl(self, name):
        if self.rec.typedef_name:
            return "%s %s" % (self.rec.typedef_name, name)
        return "%s %s %s" % (self.rec.kw, self.rec.name, name)


class Field:
    def __init__(self, name, ty, bits=None, align=None, inline=None):
        self.name = name      # None for anonymous members / unnamed bit-fields
        self.ty = ty
        self.bits = bits      # bit-field width or None
        self.align = align    # __attribute__((aligned(N))) on the member
        self.inline = inline  # Record defined inline (anonymous member, or `struct {..} m;`)


class Record:
    def __init__(self, kw, name):
        self.kw = kw          # struct | union
        self.name = name      # tag (None for inline anonymous)
        self.fields = []
        self.packed = False
        self.aligned = None
        self.pragma_pack = None
        self.typedef_name = None   # `typedef struct {...} Name;` (tag-less)
        self.has_fam = False

    @property
    def rust_name(self):
        return self.typedef_name or self.name


class Enum:
    def __init__(self, name, enumerators, underlying=None):
        self.name = name
        self.enumerators = enumerators  # [(name, value)]
        self.underlying = underlying    # C spelling of fixed underlying type or None
        self.signed = any(v < 0 for _, v in enumerators)


class Model:
    def __init__(self):
        self.decls = []   # Record | Enum | ("typedef", name, Ty)
        self.records = []
        self.enums = []
        self.typedefs = []

    def header(self):
        out = []
        for d in self.decls:
            if isinstance(d, Record):
                out.append(emit_record(d))
            elif isinstance(d, Enum):
                out.append(emit_enum(d))
            elif d[0] == "fn-typedef":
                _, name, fp = d
                out.append("typedef %s %s(%s);" % (fp.ret, name, ", ".join(fp.args) or "void"))
            else:
                _, name, ty = d
                out.append("typedef %s;" % ty.decl(name))
        return "\n".join(out) + "\n"


INTS = [
    ("signed char", True, 8), ("unsigned char", False, 8), ("char", True, 8),
    ("short", True, 16), ("unsigned short", False, 16), ("int", True, 32), ("unsigned int", False, 32),
    ("long", True, 64), ("unsigned long", False, 64), ("long long", True, 64), ("unsigned long long", False, 64),
]


def emit_enum(e):
    body = ", ".join("%s = %s" % (n, cval(v)) for n, v in e.enumerators)
    if e.underlying:
        return "enum %s : %s { %s };" % (e.name, e.underlying, body)
    return "enum %s { %s };" % (e.name, body)


def cval(v):
    if v < -(2 ** 31) or v > 2 ** 31 - 1:
        return "%dLL" % v if v < 2 ** 63 else "%dULL" % v
    return str(v)


def emit_record_body(r, indent="  "):
    lines = []
    for f in r.fields:
        al = " __attribute__((aligned(%d)))" % f.align if f.align else ""
        if f.inline is not None:
            inner = emit_record_inline(f.inline, indent + "  ")
            lines.append("%s%s%s%s;" % (indent, inner, (" " + f.name) if f.name else "", al))
        elif f.bits is not None:
            lines.append("%s%s : %d;" % (indent, f.ty.decl(f.name or ""), f.bits))
        else:
            lines.append("%s%s%s;" % (indent, f.ty.decl(f.name), al))
    return "\n".join(lines)


def rec_attrs(r):
    a = []
    if r.packed:
        a.append("packed")
    if r.aligned:
        a.append("aligned(%d)" % r.aligned)
    return (" __attribute__((%s))" % ", ".join(a)) if a else ""


def emit_record_inline(r, indent):
    return "%s%s {\n%s\n%s}%s" % (r.kw, (" " + r.name) if r.name else "", emit_record_body(r, indent), indent[:-2], rec_attrs(r))


def emit_record(r):
    pre = post = ""
    if r.pragma_pack:
        pre = "#pragma pack(push, %d)\n" % r.pragma_pack
        post = "\n#pragma pack(pop)"
    if r.typedef_name:
        return "%stypedef %s {\n%s\n}%s %s;%s" % (pre, r.kw, emit_record_body(r), rec_attrs(r), r.typedef_name, post)
    return "%s%s %s {\n%s\n}%s;%s" % (pre, r.kw, r.name, emit_record_body(r), rec_attrs(r), post)


DEFAULT_CFG = dict(
    n_records=(3, 7), n_fields=(1, 6), depth=3,
    p_bitfield=0.25, p_packed=0.12, p_aligned=0.10, p_pragma=0.08, p_union=0.25,
    p_anon=0.15, p_inline_named=0.08, p_array=0.25, p_enum=0.5, p_typedef=0.4,
    p_fam=0.06, p_zero_len=0.03, p_fnptr=0.08, p_field_align=0.05, p_float=0.15,
    p_tagless_typedef=0.15, p_enum_fixed=0.15, bitfield_only=False, p_bf_zero=0.1, p_bf_anon=0.1,
    bf_in_union=True, allow_bool_bitfield=True, allow_enum_bitfield=True,
)


class Gen:
    def __init__(self, rng, cfg=None, prefix=""):
        self.r = rng
        self.cfg = dict(DEFAULT_CFG)
        if cfg:
            self.cfg.update(cfg)
        self.m = Model()
        self.prefix = prefix
        self.nrec = self.nenum = self.ntd = self.nanon = 0

    def p(self, key):
        return self.r.random() < self.cfg[key]

    # ---- leaf types ----
    def int_type(self):
        c, s, b = self.r.choice(INTS)
        return Scalar(c, "int", s, b)

    def scalar(self, allow_ptr=True):
        x = self.r.random()
        if x < self.cfg["p_float"]:
            return self.r.choice([Scalar("float", "float", True, 32), Scalar("double", "float", True, 64)])
        if x < self.cfg["p_float"] + 0.05:
            return Scalar("_Bool", "bool", False, 8)
        if allow_ptr and x < self.cfg["p_float"] + 0.05 + 0.12:
            return self.pointer()
        if allow_ptr and x < self.cfg["p_float"] + 0.05 + 0.12 + self.cfg["p_fnptr"]:
            nargs = self.r.randint(0, 4)
            if self.r.random() < self.cfg.get("p_fnptr_many", 0.0):
                nargs = self.r.choice([12, 13, 14])
            pool = ["int", "char", "double", "void *", "unsigned long", "float", "short"]
            fp = FnPtr(self.r.choice(["int", "void", "double", "unsigned char"]), [self.r.choice(pool) for _ in range(nargs)])
            if self.r.random() < self.cfg.get("p_fn_typedef", 0.0):
                tdn = "%sFT%d" % (self.prefix, self.ntd)
                self.ntd += 1
                self.m.decls.append(("fn-typedef", tdn, fp))
                fp = FnPtr(fp.ret, fp.args, via_typedef=tdn)
            return fp
        if self.m.enums and x > 1 - self.cfg["p_enum"] * 0.3:
            return EnumRef(self.r.choice(self.m.enums))
        if self.m.typedefs and x > 1 - self.cfg["p_enum"] * 0.3 - self.cfg["p_typedef"] * 0.3:
            name, ty = self.r.choice(self.m.typedefs)
            return TypedefRef(name, ty)
        return self.int_type()

    def pointer(self):
        choices = ["void", "int", "const char", "unsigned long", "double", "int *"]
        for rec in self.m.records:
            if rec.name:
                choices.append("%s %s" % (rec.kw, rec.name))
            elif rec.typedef_name:
                choices.append(rec.typedef_name)
        return Ptr(self.r.choice(choices))

    # ---- declarations ----
    def new_enum(self):
        name = "%sE%d" % (self.prefix, self.nenum)
        self.nenum += 1
        n = self.r.randint(1, 5)
        vals, cur = [], 0
        style = self.r.choice(["seq", "neg", "big", "dup", "sparse"])
        underlying = None
        if self.p("p_enum_fixed"):
            underlying = self.r.choice(["unsigned char", "short", "unsigned int", "long long", "signed char"])
            style = "seq" if style in ("neg", "big") and underlying.startswith("unsigned") else style
        for i in range(n):
            if style == "neg" and i == 0:
                cur = -self.r.randint(1, 100)
            elif style == "big" and i == n - 1 and not underlying:
                cur = self.r.choice([2 ** 31, 2 ** 32 + 5, 2 ** 40])
            elif style == "dup" and i == n - 1 and i > 0:
                cur = vals[0][1]
            elif style == "sparse":
                cur += self.r.randint(1, 50)
            if underlying in ("unsigned char", "signed char"):
                cur = max(min(cur, 100), -100 if underlying == "signed char" else 0)
            if style == "big" and underlying:
                pass
            vals.append(("%s_%c" % (name, ord("A") + i), cur))
            cur += 1
        e = Enum(name, vals, underlying)
        if underlying:
            e.signed = not underlying.startswith("unsigned")
        self.m.enums.append(e)
        self.m.decls.append(e)
        return e

    def new_typedef(self):
        name = "%sT%d" % (self.prefix, self.ntd)
        self.ntd += 1
        x = self.r.random()
        if x < 0.6 or not self.m.records:
            ty = self.scalar()
        elif x < 0.8:
            ty = Array(self.int_type(), [self.r.choice([1, 2, 3, 4, 5, 5, 33, 64])])
        else:
            rec = self.r.choice([r for r in self.m.records if not r.has_fam] or [None])
            ty = RecordRef(rec) if rec else self.int_type()
        if isinstance(ty, TypedefRef) and self.r.random() < 0.5:
            pass  # typedef chain
        self.m.typedefs.append((name, ty))
        self.m.decls.append(("typedef", name, ty))

    def bitfield_run(self, rec, fi):
        n = self.r.randint(1, 6)
        fields = []
        for _ in range(n):
            x = self.r.random()
            opens_after_plain = not fields and rec.fields and rec.fields[-1].bits is None and rec.fields[-1].inline is None
            if (x < self.cfg["p_bf_zero"] and fields) or (opens_after_plain and self.r.random() < self.cfg.get("p_bf_zero_open", 0.3)):
                # a zero-width separator may also OPEN a run (after a plain member): it then pushes the run to the next boundary of its type
                base = self.int_type()
                fields.append(Field(None, base, bits=0))
                continue
            if self.cfg["allow_bool_bitfield"] and x > 0.93:
                base, w = Scalar("_Bool", "bool", False, 8), 1
            elif self.cfg["allow_enum_bitfield"] and self.m.enums and x > 0.86:
                e = self.r.choice(self.m.enums)
                base = EnumRef(e)
                lo = min(v for _, v in e.enumerators)
                hi = max(v for _, v in e.enumerators)
                need = max(hi.bit_length(), (-lo - 1).bit_length() if lo < 0 else 0) + (1 if e.signed or lo < 0 else 0)
                ebits = {"unsigned char": 8, "signed char": 8, "short": 16, "unsigned int": 32, "long long": 64}.get(e.underlying, 32)
                if need > ebits or need > 32 and not e.underlying:
                    base, w = self.int_type(), 3
                else:
                    w = self.r.randint(max(need, 1), ebits)
            else:
                base = self.int_type()
                w = self.r.choice([1, 2, 3, 5, 7, 8, 9, 13, 15, 16, 17, 24, 31, 32, 33, 48, 63, 64, self.r.randint(1, 64)])
                w = min(w, base.bits)
                if self.cfg.get("portable") and base.c in ("long", "unsigned long"):
                    w = min(w, 32)      # long is 32 bits on ILP32 / LLP64 targets
            if self.r.random() < self.cfg["p_bf_anon"]:
                fields.append(Field(None, base, bits=w))
            else:
                fields.append(Field("m%d" % fi[0], base, bits=w))
                fi[0] += 1
        return fields

    def new_record(self, depth, inline=False, name=None, in_packed=False, fi=None):
        kw = "union" if self.p("p_union") else "struct"
        rec = Record(kw, name)
        if not inline:
            if self.p("p_tagless_typedef"):
                rec.typedef_name = "%sR%d" % (self.prefix, self.nrec)
                rec.name = None
            else:
                rec.name = "%s%s%d" % (self.prefix, "S" if kw == "struct" else "U", self.nrec)
            self.nrec += 1
        x = self.r.random()
        if x < self.cfg["p_packed"] and not (in_packed and self.cfg.get("no_packed_in_packed_ctx", True)):
            rec.packed = True
        elif x < self.cfg["p_packed"] + self.cfg["p_aligned"] and not in_packed:
            rec.aligned = self.r.choice([2, 4, 8, 16, 32])
        elif x < self.cfg["p_packed"] + self.cfg["p_aligned"] + self.cfg["p_pragma"] and not inline:
            rec.pragma_pack = self.r.choice([1, 2, 4])
        packed_ctx = in_packed or rec.packed or bool(rec.pragma_pack)
        nf = self.r.randint(*self.cfg["n_fields"])
        fi = fi if fi is not None else [0]
        i = 0
        while i < nf:
            i += 1
            if self.cfg["bitfield_only"] or self.p("p_bitfield"):
                if kw == "union" and not self.cfg["bf_in_union"]:
                    pass
                else:
                    rec.fields.extend(self.bitfield_run(rec, fi))
                    if self.cfg["bitfield_only"] and self.r.random() < 0.6:
                        continue
                    if self.cfg["bitfield_only"]:
                        # interleave a plain member
                        rec.fields.append(Field("m%d" % fi[0], self.int_type()))
                        fi[0] += 1
                    continue
            fname = "m%d" % fi[0]
            fi[0] += 1
            x = self.r.random()
            if depth > 0 and x < self.cfg["p_anon"]:
                inner = self.new_record(depth - 1, inline=True, in_packed=packed_ctx, fi=fi)
                if inner.fields:
                    rec.fields.append(Field(None, None, inline=inner))
                    continue
            if depth > 0 and x < self.cfg["p_anon"] + self.cfg["p_inline_named"]:
                inner = self.new_record(depth - 1, inline=True, in_packed=packed_ctx, fi=fi)
                if inner.fields:
                    rec.fields.append(Field(fname, None, inline=inner))
                    continue
            cands = [r for r in self.m.records if (r.name or r.typedef_name) and not r.has_fam and (not packed_ctx or not rec_has_align(r))]
            if cands and x > 0.8:
                ty = RecordRef(self.r.choice(cands))
            else:
                ty = self.scalar()
                # a typedef of an over-aligned record inside a packed context is the same recorded limitation as the record itself
                t0 = resolve(ty)
                while isinstance(t0, Array):
                    t0 = resolve(t0.elem)
                if packed_ctx and isinstance(t0, RecordRef) and rec_has_align(t0.rec):
                    ty = self.int_type()
            if self.p("p_array") and not (isinstance(ty, Scalar) and ty.kind == "fnptr" and False):
                dims = [self.r.randint(1, 4) for _ in range(self.r.choice([1, 1, 1, 2, 2, 3]))]
                if self.r.random() < 0.1:
                    # a dimension past the 32-element limit of the std trait impls, in any position (outer, inner, innermost)
                    dims[self.r.randrange(len(dims))] = self.r.choice([33, 40, 64])
                ty = Array(ty, dims)
            al = None
            if self.p("p_field_align") and not packed_ctx:
                al = self.r.choice([2, 4, 8, 16])
            rec.fields.append(Field(fname, ty, align=al))
        # trailing flexible / zero-length array
        if kw == "struct" and not inline and any(f.name and f.bits is None for f in rec.fields):
            if self.p("p_fam"):
                rec.fields.append(Field("fam", Array(self.int_type(), [None])))
                rec.has_fam = True
            elif self.p("p_zero_len"):
                rec.fields.append(Field("zla", Array(self.int_type(), [0])))
                rec.has_fam = True
        if not any(f.name or f.inline for f in rec.fields):
            rec.fields.append(Field("m%d" % fi[0], self.int_type()))
            fi[0] += 1
        if not inline:
            self.m.records.append(rec)
            self.m.decls.append(rec)
        return rec

    def generate(self):
        n = self.r.randint(*self.cfg["n_records"])
        for i in range(n):
            if self.p("p_enum") and len(self.m.enums) < 4:
                self.new_enum()
            if self.p("p_typedef"):
                self.new_typedef()
            self.new_record(self.cfg["depth"])
        return self.m


def rec_has_align(r):
    if r.aligned:
        return True
    for f in r.fields:
        if f.align:
            return True
        if f.inline is not None and rec_has_align(f.inline):
            return True
        t = f.ty
        while isinstance(t, (Array, TypedefRef)):
            t = t.elem if isinstance(t, Array) else t.target
        if isinstance(t, RecordRef) and rec_has_align(t.rec):
            return True
    return False


def resolve(ty):
    while isinstance(ty, TypedefRef):
        ty = ty.target
    return ty


class Leaf:
    """A named member path ending in a scalar / array-of-scalar / bit-field."""
    def __init__(self, cpath, rpath, ty, bits=None, via_union=False, accessor_owner=None, fam=False, elem=None, dims=None):
        self.cpath, self.rpath, self.ty, self.bits = cpath, rpath, ty, bits
        self.via_union = via_union
        self.accessor_owner = accessor_owner   # rust path of the record holding the bit-field accessor
        self.fam = fam
        self.elem, self.dims = elem, dims


def leaves(rec, cpre="", rpre="", via_union=False, out=None, depth=0):
    """Enumerate member paths of `rec`. rpath uses bindgen's naming for
    anonymous members (__bindgen_anon_N, counted per parent record)."""
    if out is None:
        out = []
    anon = 0
    vu = via_union or rec.kw == "union"
    for f in rec.fields:
        if f.inline is not None:
            if f.name is None:
                anon += 1
                rname = "__bindgen_anon_%d" % anon
                leaves(f.inline, cpre, rpre + rname + ".", vu, out, depth + 1)
            else:
                leaves(f.inline, cpre + f.name + ".", rpre + f.name + ".", vu, out, depth + 1)
            continue
        if f.name is None:
            continue  # unnamed bit-field
        if f.bits is not None:
            out.append(Leaf(cpre + f.name, rpre + f.name, resolve(f.ty), bits=f.bits, via_union=vu,
                            accessor_owner=rpre[:-1] if rpre else ""))
            continue
        ty = resolve(f.ty)
        if isinstance(ty, Array):
            el = resolve(ty.elem)
            fam = ty.dims[-1] in (None, 0) or ty.dims[0] in (None, 0)
            if isinstance(el, RecordRef):
                if fam:
                    continue
                # descend into first and last element
                idxs = {tuple(0 for _ in ty.dims), tuple(d - 1 for d in ty.dims)}
                for ix in sorted(idxs):
                    sfx = "".join("[%d]" % k for k in ix)
                    if depth < 3:
                        leaves(el.rec, cpre + f.name + sfx + ".", rpre + f.name + sfx + ".", vu, out, depth + 1)
                continue
            if isinstance(el, Array):
                el2 = resolve(el.elem)
                ty = Array(el2, list(ty.dims) + list(el.dims))
                el = el2
                if isinstance(el, (RecordRef, Array)):
                    continue
            out.append(Leaf(cpre + f.name, rpre + f.name, ty, via_union=vu, fam=fam, elem=el, dims=ty.dims))
        elif isinstance(ty, RecordRef):
            if depth < 3:
                leaves(ty.rec, cpre + f.name + ".", rpre + f.name + ".", vu, out, depth + 1)
        else:
            out.append(Leaf(cpre + f.name, rpre + f.name, ty, via_union=vu))
    return out


def shape_key(rec, depth=0):
    """Structural hash key of a record (for distinctness counting)."""
    parts = [rec.kw, "P" if rec.packed else "", "A%s" % rec.aligned if rec.aligned else "", "K%s" % rec.pragma_pack if rec.pragma_pack else ""]
    for f in rec.fields:
        if f.inline is not None:
            parts.append("{%s}" % shape_key(f.inline, depth + 1))
        else:
            t = f.ty
            s = ""
            while isinstance(t, (Array, TypedefRef)):
                if isinstance(t, Array):
                    s += "[%s]" % ",".join(str(d) for d in t.dims)
                    t = t.elem
                else:
                    s += "td:"
                    t = t.target
            if isinstance(t, RecordRef):
                s += "rec" if depth > 1 else "(%s)" % shape_key(t.rec, depth + 1)
            else:
                s += t.c if t.kind != "fnptr" else "fnptr"
            if f.bits is not None:
                s += ":%d" % f.bits
            if f.align:
                s += "@%d" % f.align
            parts.append(s)
    return "|".join(parts)


def features(model):
    """Census of generator features present in a model (for evidence)."""
    c = {}

    def bump(k):
        c[k] = c.get(k, 0) + 1

    def walk(rec):
        bump(rec.kw)
        if rec.packed:
            bump("packed")
        if rec.aligned:
            bump("aligned")
        if rec.pragma_pack:
            bump("pragma_pack")
        if rec.typedef_name:
            bump("tagless_typedef")
        for f in rec.fields:
            if f.inline is not None:
                bump("anon_member" if f.name is None else "inline_named_member")
                walk(f.inline)
                continue
            if f.bits is not None:
                bump("bitfield")
                if f.bits == 0:
                    bump("bitfield_zero_width")
                if f.name is None:
                    bump("bitfield_unnamed")
                continue
            if f.align:
                bump("member_aligned")
            t = f.ty
            while isinstance(t, (Array, TypedefRef)):
                if isinstance(t, Array):
                    bump("array%dd" % len(t.dims))
                    if t.dims[-1] is None:
                        bump("flexible_array")
                    elif t.dims[-1] == 0:
                        bump("zero_length_array")
                    t = t.elem
                else:
                    bump("typedef_use")
                    t = t.target
            if isinstance(t, RecordRef):
                bump("nested_record")
            else:
                bump("scalar_" + t.kind)
    for r in model.records:
        walk(r)
    for e in model.enums:
        bump("enum")
        if e.underlying:
            bump("enum_fixed_underlying")
        if e.signed:
            bump("enum_negative")
    return c


def scalar_count(rec, memo=None, depth=0):
    """number of scalar elements an object of this record holds (arrays multiplied out): bounds probe output and run time"""
    memo = {} if memo is None else memo
    if id(rec) in memo:
        return memo[id(rec)]
    total = 0
    for f in rec.fields:
        if f.inline is not None:
            total += scalar_count(f.inline, memo, depth + 1)
            continue
        t = f.ty
        mult = 1
        while isinstance(t, (Array, TypedefRef)):
            if isinstance(t, Array):
                for dmn in t.dims:
                    mult *= max(1, dmn or 1)
                t = t.elem
            else:
                t = t.target
        if isinstance(t, RecordRef) and depth < 12:
            total += mult * scalar_count(t.rec, memo, depth + 1)
        else:
            total += mult
    memo[id(rec)] = total
    return total
