"""C++ (and C) declaration graphs with an explicit needs-complete-type relation, rendered in
any valid top-level order (for C07's metamorphic re-ordering and C09/C10's dependency model)."""
import itertools


class Node:
    def __init__(self, name, kind):
        self.name = name
        self.kind = kind        # class | template | typedef
        self.members = []       # source lines inside the body
        self.bases = []         # names (need complete)
        self.base_via = {}      # base class name -> typedef name it is spelled with
        self.needs_complete = set()
        self.mentions = set()   # names only mentioned (pointer / reference / template arg by pointer)
        self.tparams = []
        self.target = None      # typedef target spelling
        self.attrs = {}


class Graph:
    def __init__(self, lang="cxx"):
        self.lang = lang
        self.nodes = []

    def by_name(self, n):
        for x in self.nodes:
            if x.name == n:
                return x
        return None

    def classes(self):
        return [n for n in self.nodes if n.kind in ("class", "template")]


SCALARS = ["int", "char", "unsigned long", "short", "long long", "bool"]


def generate_chain(rng):
    """Chain of templates, each holding an instantiation of the previous one with its own parameter (by value or by pointer);
    whether the top's parameter is used depends on a fact that has to travel the whole chain."""
    g = Graph("cxx")
    depth = rng.randint(2, 5)
    base_use = rng.choice(["value", "pointer", "unused", "array"])
    prev = None
    for i in range(depth):
        node = Node("L%d" % i, "template")
        node.tparams = ["A"]
        if prev is None:
            node.members.append({"value": "A v;", "pointer": "A *p;", "unused": "int nothing;", "array": "A arr[3];"}[base_use])
        else:
            if rng.random() < 0.6:
                node.members.append("%s<A> *link;" % prev.name)
                node.mentions.add(prev.name)
            else:
                node.members.append("%s<A> link;" % prev.name)
                node.needs_complete.add(prev.name)
            if rng.random() < 0.3:
                node.members.append("int extra%d;" % i)
        g.nodes.append(node)
        prev = node
    user = Node("C0", "class")
    arg = rng.choice(["int", "float", "char", "double"])
    user.members.append("%s<%s> top;" % (prev.name, arg))
    user.needs_complete.add(prev.name)
    for x in g.nodes:
        if x is not prev and rng.random() < 0.3:
            user.members.append("%s<long> *side_%s;" % (x.name, x.name))
            user.mentions.add(x.name)
    g.nodes.append(user)
    if rng.random() < 0.5:
        td = Node("A0", "typedef")
        td.target = "%s<short>" % prev.name
        td.needs_complete.add(prev.name)
        g.nodes.append(td)
    return g


def generate(rng, n=None, lang="cxx"):
    g = Graph(lang)
    n = n or rng.randint(3, 7)
    tpls = []
    for i in range(n):
        k = rng.random()
        if lang == "cxx" and k < 0.3:
            node = Node("T%d" % i, "template")
            node.tparams = ["A"] if rng.random() < 0.6 else ["A", "B"]
            use = rng.choice(["value", "pointer", "unused", "array", "partial", "pair", "small-array"])
            node.attrs["use"] = use
            if use == "value":
                node.members.append("A v;")
            elif use == "pointer":
                node.members.append("A *p;")
            elif use == "array":
                node.members.append("A arr[%d];" % rng.choice([2, 40]))
            elif use == "partial" and len(node.tparams) == 2:
                node.members.append("A a; int pad;")
            elif use == "pair" and len(node.tparams) == 2:
                node.members.append("A first; B second;")       # pair<char, char>: size 2, alignment 1
            elif use == "small-array":
                node.members.append("A few[%d];" % rng.choice([2, 3, 4]))
            else:
                node.members.append("int unused_param_holder;")
            if rng.random() < 0.3:
                node.members.append("float tf;")
            if tpls and rng.random() < 0.6:
                # a template whose member is an instantiation of an earlier template with its own parameter (chains of used-parameter facts)
                inner = rng.choice(tpls)
                args = ", ".join(["A"] + ["int"] * (len(inner.tparams) - 1))
                if rng.random() < 0.5:
                    node.members.append("%s<%s> chain_v;" % (inner.name, args))
                    node.needs_complete.add(inner.name)
                else:
                    node.members.append("%s<%s> *chain_p;" % (inner.name, args))
                    node.mentions.add(inner.name)
            tpls.append(node)
            g.nodes.append(node)
            continue
        node = Node("C%d" % i, "class")
        earlier = [x for x in g.nodes if x.kind == "class"]
        # bases
        if lang == "cxx" and earlier and rng.random() < 0.35:
            for b in rng.sample(earlier, min(len(earlier), rng.choice([1, 1, 2, 2, 3, 4])) if len(earlier) > 1 else 1):
                if b.name not in node.bases:
                    node.bases.append(b.name)
                    node.needs_complete.add(b.name)
                    # the base named through a typedef of it (facts about the base then travel through the alias)
                    tds = [t_ for t_ in g.nodes if t_.kind == "typedef" and t_.target == b.name]
                    if not tds and rng.random() < 0.35:
                        td_ = Node("AB%d_%s" % (i, b.name), "typedef")
                        td_.target = b.name
                        td_.mentions.add(b.name)
                        g.nodes.append(td_)
                        tds = [td_]
                    if tds and rng.random() < 0.5:
                        node.base_via[b.name] = tds[0].name
                        node.needs_complete.add(tds[0].name)
        nm = rng.randint(1, 4)
        for j in range(nm):
            r = rng.random()
            f = "m%d" % j
            if r < 0.3:
                t = rng.choice(SCALARS + ["float", "double"])
                if rng.random() < 0.2:
                    node.members.append("%s %s[%d];" % (t, f, rng.choice([3, 33, 64])))
                else:
                    node.members.append("%s %s;" % (t, f))
            elif r < 0.5 and earlier:
                o = rng.choice(earlier)
                node.members.append("%s %s%s;" % (o.name, f, rng.choice(["", "[2]"])))
                node.needs_complete.add(o.name)
            elif r < 0.72:
                # pointer to any class (possibly later / itself): only a mention
                o = rng.choice(["C%d" % q for q in range(n)])
                node.members.append("%s%s *%s;" % ("struct " if lang == "c" else "", o, f))
                node.mentions.add(o)
            elif r < 0.85 and tpls and lang == "cxx":
                tp = rng.choice(tpls)
                args = []
                for _ in tp.tparams:
                    if earlier and rng.random() < 0.5:
                        a = rng.choice(earlier).name
                        node.needs_complete.add(a)
                    else:
                        a = rng.choice(SCALARS + ["float", "char", "short", "char", "signed char"])
                    args.append(a)
                node.members.append("%s<%s> %s;" % (tp.name, ", ".join(args), f))
                node.needs_complete.add(tp.name)
            elif r < 0.92:
                node.members.append("int (*%s)(int, %s);" % (f, rng.choice(SCALARS)))
            else:
                node.members.append("unsigned %s : %d;" % (f, rng.randint(1, 9)))
        if lang == "cxx":
            r = rng.random()
            if r < 0.15:
                node.members.append("virtual void vm%d();" % i)
                node.attrs["virtual"] = True
            elif r < 0.3:
                node.members.append("~%s();" % node.name)
                node.attrs["dtor"] = True
            elif r < 0.4:
                node.members.append("%s(const %s &);" % (node.name, node.name))
        g.nodes.append(node)
        if rng.random() < 0.3:
            td = Node("A%d" % i, "typedef")
            td.target = node.name
            td.mentions.add(node.name)
            g.nodes.append(td)
            if rng.random() < 0.4:
                td2 = Node("AA%d" % i, "typedef")
                td2.target = td.name
                td2.needs_complete.add(td.name)   # a typedef name must be declared before use
                g.nodes.append(td2)
    # mentions of undefined classes are fine in C/C++ only with a declaration; every C<i> mentioned must exist
    names = {x.name for x in g.nodes}
    for x in g.nodes:
        x.mentions = {m for m in x.mentions if m in names}
        fixed = []
        for line in x.members:
            ok = True
            for q in range(n):
                nm_ = "C%d" % q
                if (" %s " % nm_ in " " + line or line.startswith(nm_ + " ") or ("struct %s" % nm_) in line) and nm_ not in names:
                    ok = False
            fixed.append(line if ok else "int repl_%d;" % len(fixed))
        x.members = fixed
    return g


def render_node(g, x):
    if x.kind == "typedef":
        t = g.by_name(x.target)
        kw = "struct " if (g.lang == "c" and t is not None and t.kind == "class") else ""
        return "typedef %s%s %s;" % (kw, x.target, x.name)
    head = ""
    if x.kind == "template":
        head = "template <%s> " % ", ".join("typename " + p for p in x.tparams)
    bases = (" : " + ", ".join("public " + x.base_via.get(b, b) for b in x.bases)) if x.bases else ""
    body = "\n".join("  " + m for m in x.members)
    if g.lang == "c":
        body = body.replace("bool", "_Bool")
        body = "\n".join(("  struct " + l.strip() if l.strip().startswith("C") and " *" not in l else l) for l in body.split("\n"))
    return "%sstruct %s%s {\n%s\n};" % (head, x.name, bases, body)


def forward(g, x):
    if x.kind == "template":
        return "template <%s> struct %s;" % (", ".join("typename " + p for p in x.tparams), x.name)
    return "struct %s;" % x.name


def valid_orders(g, rng, limit):
    """Topological orders of the needs-complete relation (all of them when few, seeded samples otherwise)."""
    names = [x.name for x in g.nodes]
    deps = {x.name: {d for d in x.needs_complete if d in names} for x in g.nodes}
    if len(names) <= 6:
        out = []
        for perm in itertools.permutations(names):
            pos = {n: i for i, n in enumerate(perm)}
            if all(pos[d] < pos[n] for n in names for d in deps[n]):
                out.append(list(perm))
        rng.shuffle(out)
        return out[:limit], len(out)
    seen, out = set(), []
    for _ in range(limit * 6):
        remaining = set(names)
        order = []
        while remaining:
            ready = sorted(n for n in remaining if deps[n] <= set(order))
            c = rng.choice(ready)
            order.append(c)
            remaining.discard(c)
        t = tuple(order)
        if t not in seen:
            seen.add(t)
            out.append(order)
        if len(out) >= limit:
            break
    return out, None


def render(g, order, hoist):
    """hoist=True: all forward declarations first; False: a forward declaration right before the first mention."""
    out = []
    declared = set()
    defined = set()
    if hoist:
        for x in g.classes():
            out.append(forward(g, x))
            declared.add(x.name)
    for name in order:
        x = g.by_name(name)
        for m in sorted(x.mentions | x.needs_complete):
            t = g.by_name(m)
            if t is not None and t.kind != "typedef" and m not in declared and m not in defined and m != name:
                out.append(forward(g, t))
                declared.add(m)
        if x.kind != "typedef":
            declared.add(name)
        out.append(render_node(g, x))
        defined.add(name)
    return "\n".join(out) + "\n"


def generate_nested(rng):
    """C++ text: templates whose members are nested instantiation expressions mixing enclosing parameters, builtins and earlier templates
    (`Slot<Entry<T, int>>`, `Entry<Slot<T>, Slot<int>> *`), used from other templates and from plain structs, typedefs and functions."""
    tpls, out = [], []
    builtins = ["int", "char", "double", "long", "bool", "unsigned short"]

    def expr(params, depth):
        r = rng.random()
        if depth <= 0 or not tpls or r < 0.25:
            pool = params * 2 + builtins if params else builtins
            return rng.choice(pool)
        t, n = rng.choice(tpls)
        return "%s<%s>" % (t, ", ".join(expr(params, depth - 1) for _ in range(n)))

    def members(params, k):
        ms = []
        for j in range(k):
            e = expr(params, rng.randint(1, 3))
            ms.append(rng.choice(["%s m%d;", "%s m%d;", "%s *m%d;", "%s m%d[2];", "const %s &m%d;"]) % (e, j))
        return ms
    for i in range(rng.randint(2, 6)):
        np_ = rng.randint(1, 3)
        params = ["P%d" % j for j in range(np_)]
        ms = members(params, rng.randint(1, 3))
        if rng.random() < 0.2:
            ms.append("typedef %s inner_t;" % expr(params, 2))
        if rng.random() < 0.2:
            ms.append("static %s sfn(%s);" % (expr(params, 1), expr(params, 2)))
        out.append("template <%s> struct N%d { %s };" % (", ".join("typename " + p for p in params), i, " ".join(ms)))
        tpls.append(("N%d" % i, np_))
    for i in range(rng.randint(1, 4)):
        r = rng.random()
        if r < 0.5:
            out.append("struct U%d { %s };" % (i, " ".join(m for m in members([], rng.randint(1, 3)) if "&" not in m) or "int z;"))
        elif r < 0.75:
            out.append("typedef %s td%d;" % (expr([], 3), i))
        else:
            out.append("%s fn%d(%s *a, %s b);" % (rng.choice(["void", "int"]), i, expr([], 2), expr([], 2)))
    return "\n".join(out) + "\n"


def generate_mi(rng):
    """multiple inheritance from plain bases of different alignments (incl. empty ones), derived classes adding members / bit-fields / virtuals,
    and a second level deriving from several of those"""
    g = Graph("cxx")
    scal = ["char", "short", "int", "long long", "double", "float", "bool", "unsigned long"]
    nb = rng.randint(3, 6)
    for i in range(nb):
        b = Node("C%d" % i, "class")
        r = rng.random()
        if r < 0.2:
            pass                                    # empty base
        else:
            for j in range(rng.randint(1, 3)):
                t = rng.choice(scal)
                b.members.append("%s b%d_%d%s;" % (t, i, j, rng.choice(["", "", "[3]"])))
        if rng.random() < 0.15:
            b.members.append("virtual void vb%d();" % i)
            b.attrs["virtual"] = True
        g.nodes.append(b)
    nd = rng.randint(1, 3)
    for k in range(nd):
        d = Node("C%d" % (nb + k), "class")
        pool = [x for x in g.nodes if x.kind == "class"]
        for b in rng.sample(pool, min(len(pool), rng.randint(2, 4))):
            d.bases.append(b.name)
            d.needs_complete.add(b.name)
        first = rng.random()
        if first < 0.4:
            d.members.append("unsigned bf%d_a : %d;" % (k, rng.randint(1, 20)))
            d.members.append("unsigned bf%d_b : %d;" % (k, rng.randint(1, 12)))
        for j in range(rng.randint(1, 3)):
            d.members.append("%s d%d_%d;" % (rng.choice(scal), k, j))
        if rng.random() < 0.3:
            d.members.append("unsigned long long wide%d : %d;" % (k, rng.randint(33, 60)))
        if rng.random() < 0.2:
            d.members.append("virtual void vd%d();" % k)
            d.attrs["virtual"] = True
        g.nodes.append(d)
    return g
