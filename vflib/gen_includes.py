"""Generator of include DAGs with a model of which files are read."""
import os

SPECIAL_NAMES = ["with space.h", "hash#tag.h", "dollar$sign.h", "unié中.h", "plus+.h", "tilde~.h", "two  spaces.h", "at@.h",
                 "$lead.h", "#lead.h", "trail#.h", "a b#c$d.h"]


class Dag:
    def __init__(self):
        self.files = {}       # relpath -> text
        self.roots = []       # relpaths of input headers
        self.flags = []       # clang args (relative dirs are made absolute by the check)
        self.expected = set() # relpaths the generator knows are read (active includes)
        self.not_read = set() # relpaths that exist but must not be reported
        self.probed = set()   # relpaths only named in __has_include (clang -M lists them, they are not read)


def generate(rng, special_rate=0.25, n_roots=None):
    g = Dag()
    nfiles = rng.randint(3, 14)
    dirs = ["", "inc", "inc/sub", "sys", "quote dir", "q"]
    names = []
    for i in range(nfiles):
        d = rng.choice(dirs)
        if rng.random() < special_rate:
            base = rng.choice(SPECIAL_NAMES).replace(".h", "%d.h" % i)
        else:
            base = "f%d.h" % i
        names.append(os.path.join(d, base) if d else base)
    # acyclic: file i may include only files j > i
    g.flags = ["-I", "inc", "-isystem", "sys", "-iquote", "q", "-I", "quote dir"]
    incdirs_angle = ["inc", "sys", "quote dir"]
    incdirs_quote = ["q"] + incdirs_angle
    active_edges = {n: [] for n in names}
    texts = {}
    dead = set()
    guards = {}
    for i, n in enumerate(names):
        lines = []
        guard = rng.choice(["guard", "once", "none"])
        guards[n] = guard
        if guard == "guard":
            lines += ["#ifndef G_%d" % i, "#define G_%d" % i]
        elif guard == "once":
            lines.append("#pragma once")
        lines.append("struct s%d { int v%d; };" % (i, i) if guard != "none" else "extern int e%d;" % i)
        fan = rng.randint(0, min(5, nfiles - 1 - i))
        targets = rng.sample(names[i + 1:], fan) if fan else []
        for t in targets:
            # how can `n` name `t`?
            forms = []
            td, tb = os.path.split(t)
            nd = os.path.dirname(n)
            rel = os.path.relpath(t, nd or ".")
            forms.append('"%s"' % rel)
            if td in incdirs_angle:
                forms.append("<%s>" % tb)
            if td in incdirs_quote:
                forms.append('"%s"' % tb)
            if td.startswith("inc/"):
                forms.append("<%s>" % os.path.relpath(t, "inc"))
            form = rng.choice(forms)
            if "\\" in form:
                form = forms[0]
            mode = rng.random()
            if mode < 0.55:
                lines.append("#include %s" % form)
                active_edges[n].append(t)
            elif mode < 0.65:
                lines += ["#define INC_%d %s" % (i, form), "#include INC_%d" % i]
                active_edges[n].append(t)
            elif mode < 0.75:
                lines += ["#if 0", "#include %s" % form, "#endif"]
                dead.add(t)
            elif mode < 0.83:
                lines += ["#ifdef NEVER_DEFINED_%d" % i, "#include %s" % form, "#else", "extern int alt%d_%d;" % (i, len(lines)), "#endif"]
                dead.add(t)
            elif mode < 0.9:
                lines += ["#if defined(__clang__) && (1 + 1 == 2)", "#include %s" % form, "#endif"]
                active_edges[n].append(t)
            elif mode < 0.95:
                lines += ["#if __has_include(%s)" % form, "extern int has%d_%d;" % (i, len(lines)), "#endif"]
                dead.add(t)
                g.probed.add(t)
            else:
                # included twice
                lines += ["#include %s" % form, "#include %s" % form]
                active_edges[n].append(t)
        if guard == "guard":
            lines.append("#endif")
        texts[n] = "\n".join(lines) + "\n"
    if rng.random() < 0.35 and "\\" not in names[0]:
        # two DIFFERENT files reached by the same include text: each includer names its own directory's `twin.h`
        da, db = rng.sample(["inc", "inc/sub", "sys", "q", "quote dir"], 2)
        for dd, tag in ((da, "a"), (db, "b")):
            twin, user = os.path.join(dd, "twin.h"), os.path.join(dd, "use_twin_%s.h" % tag)
            texts[twin] = "#pragma once\nextern int twin_%s;\n" % tag
            texts[user] = '#pragma once\n#include "twin.h"\nextern int use_twin_%s;\n' % tag
            active_edges[twin] = []
            active_edges[user] = [twin]
            guards[twin] = guards[user] = "once"
            names += [twin, user]
            root_dir = os.path.dirname(names[0])
            texts[names[0]] += '#include "%s"\n' % os.path.relpath(user, root_dir or ".")
            active_edges[names[0]].append(user)
    g.files = texts
    k = n_roots or rng.choice([1, 1, 1, 2, 3])
    if rng.random() < 0.15:
        # a root whose own name needs escaping, incl. a backslash (never named in an #include)
        rn = rng.choice(["back\\slash root.h", "root#1 $x.h", "r\\\\2.h"])
        texts[rn] = '#include "%s"\n' % names[0] if "/" not in names[0] and '"' not in names[0] else "extern int lonely_root;\n"
        active_edges[rn] = [names[0]] if texts[rn].startswith("#include") else []
        names.insert(0, rn)
    # (`#pragma once` is ignored in a main file: a further root that an earlier root already includes must not rely on it)
    extra_pool = [x for x in names[1:] if guards.get(x) != "once"]
    g.roots = [names[0]] + rng.sample(extra_pool, min(k - 1, len(extra_pool)))
    # reachability over active edges
    seen = set()
    stack = list(g.roots)
    while stack:
        x = stack.pop()
        if x in seen:
            continue
        seen.add(x)
        stack.extend(active_edges[x])
    g.expected = seen
    g.not_read = set(names) - seen
    return g
