"""C10 — blocklisted items are referenced but never defined; opaque types are exact blobs."""
import os
import re

from .. import build, drv, htypes, probes
from .. import gen_ctypes as G
from ..core import HELD, INCONCLUSIVE, VIOLATED, Verdict, write
from ..core import run as sh

LEVEL = "exploration"
NINE = {"Copy", "Clone", "Debug", "Default", "Hash", "PartialEq", "Eq", "PartialOrd", "Ord"}
CFG = dict(p_bitfield=0.1, bf_in_union=False, depth=2, p_packed=0.06, p_aligned=0.05, p_pragma=0.04, p_fam=0.0, p_zero_len=0.0,
           n_records=(4, 8), p_tagless_typedef=0.2)


def c_sizes(d, model, recs, enums):
    src = '#include "h.h"\n#include <stdio.h>\nint main(void) {\n'
    for r in recs:
        T = probes.c_type_name(r)
        src += '  printf("%s %%zu %%zu\\n", sizeof(%s), (size_t)_Alignof(%s));\n' % (r.rust_name, T, T)
    for e in enums:
        src += '  printf("%s %%zu %%d\\n", sizeof(enum %s), (int)((enum %s)-1 < 0));\n' % (e.name, e.name, e.name)
    src += "  return 0;\n}\n"
    p = write(os.path.join(d, "sizes.c"), src)
    exe = os.path.join(d, "sizes")
    rc, so, se, _ = sh(["clang", "-w", p, "-o", exe, "-I", d], timeout=60)
    if rc != 0:
        return None
    rc, so, se, _ = sh([exe], timeout=30)
    out = {}
    for line in so.splitlines():
        n, a, b = line.split()
        out[n] = (int(a), int(b))
    return out


def contains(rec, names, depth=0):
    """does rec (transitively, by value) contain any record named in `names`?"""
    for f in rec.fields:
        if f.inline is not None:
            if contains(f.inline, names, depth + 1):
                return True
            continue
        t = f.ty
        while isinstance(t, (G.Array, G.TypedefRef)):
            t = t.elem if isinstance(t, G.Array) else t.target
        if isinstance(t, G.RecordRef):
            if t.rec.rust_name in names or contains(t.rec, names, depth + 1):
                return True
        if isinstance(t, G.EnumRef) and t.enum.name in names:
            return True
    return False


def direct_container(rec, names):
    for f in rec.fields:
        if f.inline is not None:
            continue
        t = f.ty
        while isinstance(t, (G.Array, G.TypedefRef)):
            t = t.elem if isinstance(t, G.Array) else t.target
        if isinstance(t, G.RecordRef) and t.rec.rust_name in names:
            return True
    return False


def case(chk, i):
    rng = chk.rng("case", i)
    model = G.Gen(rng, CFG).generate()
    d = chk.dir("c%d" % (i % 48))
    for f in os.listdir(d):
        try:
            os.unlink(os.path.join(d, f))
        except OSError:
            pass
    named = [r for r in model.records]
    if len(named) < 3:
        return None
    if max([G.scalar_count(r) for r in model.records] or [0]) > 400000:
        return Verdict(HELD, "c10-%d" % i, obs={"oversized_models_not_executed": 1})
    try:
        hp = htypes.HeaderProbe(d, model)
    except Exception as ex:
        return Verdict(INCONCLUSIVE, "c10-%d" % i, "harness: %s" % str(ex)[:300])
    sizes = c_sizes(d, model, named, model.enums)
    if sizes is None:
        return Verdict(INCONCLUSIVE, "c10-%d" % i, "sizes probe failed")
    out = []
    for s in range(chk.pick(3, 8)):
        r = chk.rng("sel", i, s)
        mode = r.choice(["blocklist-type", "blocklist-item", "opaque-type", "opaque-type", "mixed", "hide-annotation", "blocklist-and-opaque"])
        k = r.randint(1, max(1, len(named) // 3))
        chosen = r.sample(named, k)
        if mode == "hide-annotation":
            # prefer a record that several others embed by value (the exclusion then has to hold for every user, not just the first)
            users = lambda c: sum(1 for o in named if o is not c and direct_container(o, {c.rust_name}))
            ranked = sorted([c for c in named if c.name and not c.typedef_name], key=users, reverse=True)
            if ranked and users(ranked[0]) >= 2:
                chosen = [ranked[0]]
        block, opaque = [], []
        for c in chosen:
            if mode.startswith("blocklist") or mode == "hide-annotation" or (mode == "mixed" and r.random() < 0.5):   # incl. blocklist-and-opaque
                block.append(c)
            else:
                opaque.append(c)
        benum = []
        if model.enums and mode in ("blocklist-type", "mixed") and r.random() < 0.3:
            benum = [r.choice(model.enums)]
        flags = []
        raw = []
        hdr_override = None
        if mode == "hide-annotation":
            # the annotation form of exclusion: `/** <div rustbindgen hide></div> */` in front of the record
            text = model.header()
            for b in block:
                head = ("typedef %s {" % b.kw) if b.typedef_name else ("%s %s {" % (b.kw, b.name))
                # tag-less typedef records cannot be addressed textually in a unique way: fall back to the option
                if b.typedef_name or text.count(head) != 1:
                    flags += ["--blocklist-type", b.rust_name]
                else:
                    text = text.replace(head, "/** <div rustbindgen hide></div> */\n" + head)
            hdr_override = write(os.path.join(d, "hide_%d.h" % s), text)
        for b in block:
            if mode == "hide-annotation":
                sz, al = sizes[b.rust_name]
                raw.append("#[repr(C, align(%d))] #[derive(Copy, Clone)] pub struct %s(pub [u8; %d]);" % (al, b.rust_name, sz))
                continue
            flags += ["--blocklist-item" if mode == "blocklist-item" else "--blocklist-type", b.rust_name]
            if mode == "blocklist-and-opaque":
                # the same type also matched by an opaque pattern: the blocklist decides (not defined, nothing derived through it)
                flags += ["--opaque-type", b.rust_name]
            sz, al = sizes[b.rust_name]
            raw.append("#[repr(C, align(%d))] #[derive(Copy, Clone)] pub struct %s(pub [u8; %d]);" % (al, b.rust_name, sz))
        for e in benum:
            flags += ["--blocklist-type", e.name]
            sz, neg = sizes[e.name]
            raw.append("pub type %s = %s%d;" % (e.name, "i" if neg else "u", sz * 8))
        for o in opaque:
            flags += ["--opaque-type", o.rust_name]
        flags += r.choice([[], ["--with-derive-default", "--with-derive-hash", "--with-derive-partialeq", "--with-derive-eq"], ["--no-layout-tests"]])
        if r.random() < 0.3:
            # some ParseCallbacks registered that have nothing to say about blocklisted types (the CLI's custom-derive / attribute callbacks):
            # an unanswered question is "no"
            flags += r.choice([["--with-derive-custom-struct", "ZZ_nomatch.*=Debug"], ["--with-attribute-custom", "ZZ_nomatch=#[allow(dead_code)]"],
                               ["--with-derive-custom", "ZZ_nomatch=Clone", "--with-attribute-custom-struct", "ZZ_nomatch=#[must_use]"]])
        bnames = {b.rust_name for b in block} | {e.name for e in benum}
        onames = {o.rust_name for o in opaque}
        affected = {rr.rust_name for rr in named if rr.rust_name in bnames | onames or contains(rr, bnames | onames)}
        cname = "c10-%d-s%d" % (i, s)
        rawflags = []
        for line in raw:
            rawflags += ["--raw-line", line]
        # a blocklisted type with over-large alignment inside a packed container cannot be expressed; skip those selections
        if hdr_override:
            saved = hp.header
            hp.header = hdr_override
        res = hp.run_optset("s%d" % s, flags + rawflags, layout_only_recs=affected)
        if hdr_override:
            hp.header = saved
        files = dict(hp.files())
        files.update(res.get("files", {}))
        probs = htypes.classify(res, "s%d" % s, model)
        viol = [(w, sg) for kd, w, sg in probs if kd == "violation" and not (sg or "").startswith("c03.")]
        inc = [w for kd, w, sg in probs if kd in ("inconclusive", "deferred-c01")]
        obs = dict(res.get("obs") or {})
        obs.update({"selections": 1, "blocklisted": len(bnames), "opaque": len(onames), "records_layout_checked": len(named)})
        problems = []
        known_sig = None
        if res["status"] in ("ok", "rustc-failed", "probe-crashed") and "inv" in res:
            inv = res["inv"]
            defined = {}
            for it in inv["items"]:
                if it["kind"] in ("struct", "union", "enum", "type", "const", "static", "fn"):
                    defined.setdefault(it["name"], []).append(it)
            rawset = set(raw)
            for bn in bnames:
                defs = [it for it in defined.get(bn, [])]
                # the raw line itself shows up as one definition
                if len(defs) > 1:
                    problems.append("blocklisted %s is defined by bindgen (besides the user's raw line)" % bn)
                # it must still be named at use sites
            text = res["files"].get("bindings.rs", "")
            for bn in bnames:
                # (a container that is itself opaque or blocklisted in this selection does not show its members)
                used_in_c = any(direct_container(rr, {bn}) for rr in named if rr.rust_name not in bnames and rr.rust_name not in onames)
                if used_in_c and not re.search(r"[:\s\[<(]%s[\s;,>\])]" % re.escape(bn), text.split(raw[-1])[-1] if raw else text):
                    problems.append("blocklisted %s is used by value in C but never named in the bindings" % bn)
                    aliases = [tn for tn, tt in model.typedefs if isinstance(G.resolve(tt), G.RecordRef) and G.resolve(tt).rec.rust_name == bn]
                    if mode == "hide-annotation" and aliases:
                        # recorded: the `hide` annotation on a record also swallows `typedef struct R T;` — uses keep naming T, which nobody defines
                        known_sig = "c10.hide-annotation-hides-typedef-aliases"
            for on in onames:
                its = [it for it in defined.get(on, []) if it["kind"] in ("struct", "union")]
                if not its:
                    problems.append("opaque type %s is not emitted" % on)
                    continue
                it = its[0]
                fields = [f["name"] for f in it["fields"]]
                bad = [f for f in fields if not (f.startswith("_bindgen_opaque_blob") or f == "_address" or f.startswith("_bindgen_align"))]
                if bad:
                    problems.append("opaque type %s exposes fields %s" % (on, bad))
                impls = [x for x in inv["items"] if x["kind"] == "impl" and x["self_ty"].replace(" ", "") == on and x.get("trait") is None]
                meths = [m["name"] for x in impls for m in x["methods"]]
                if meths:
                    problems.append("opaque type %s exposes methods/accessors %s" % (on, meths[:5]))
            # traits are not derived through a blocklisted type
            for rr in named:
                if rr.rust_name in bnames or rr.rust_name in onames:
                    continue
                if direct_container(rr, {b.rust_name for b in block}):
                    its = [it for it in defined.get(rr.rust_name, []) if it["kind"] in ("struct", "union")]
                    if its:
                        der = set(its[0].get("derives", [])) & NINE
                        obs["containers_checked"] = obs.get("containers_checked", 0) + 1
                        if der:
                            problems.append("%s contains blocklisted type by value but derives %s without the user vouching" % (rr.rust_name, sorted(der)))
        if any(sg == "c01.packed-contains-aligned" for kd, w, sg in probs):
            known_sig = "c01.packed-contains-aligned"
        # a container that derives a trait its blocklisted / opaque member does not implement (rustc E0277 naming a selected type)
        if res["status"] == "rustc-failed":
            err = res.get("stderr", "")
            hits = set(re.findall(r"`(\w+)` doesn't implement `(\w+)`", err)) | set(
                (a, b) for a, b in re.findall(r"the trait bound `(\w+): (\w+)` is not satisfied", err)) | set(
                (a, "PartialEq") for a in re.findall(r"can't compare `(\w+)` with", err)) | set(
                (a, "PartialEq") for a in re.findall(r"binary operation `==` cannot be applied to type `(\w+)`", err))
            sel = [(t, tr) for t, tr in hits if t in bnames | onames]
            if sel:
                opaque_union = {o.rust_name for o in opaque if o.kw == "union"}
                opaque_only = all(t in onames for t, tr in sel)
                cons = all((tr in ("Eq", "Hash", "Ord", "PartialOrd", "PartialEq") and t in onames) or (t in opaque_union) for t, tr in sel)
                if opaque_only and cons:
                    # consequence of the recorded C07 finding (facts of opaque records are schedule dependent) / opaque unions
                    known_sig = "c10.container-derives-through-opaque"
                problems.append("a container derives a trait that its %s member does not implement: %s" % (
                    "opaque" if opaque_only else "blocklisted", sorted(sel)[:4]))
        for w, sg in viol:
            problems.append(w)
        if problems:
            sigs = {sg for w, sg in viol}
            sig = known_sig or (list(sigs)[0] if len(sigs) == 1 and None not in sigs and len(problems) == len(viol) else None)
            out.append(Verdict(VIOLATED, cname, "\n".join(problems)[:2500], files=files, obs=obs, signature=sig))
        elif inc:
            if known_sig:
                out.append(Verdict(HELD, cname, obs={"selections_hitting_recorded_C01_findings": 1}))
            else:
                out.append(Verdict(INCONCLUSIVE, cname, inc[0][:500], obs=obs))
        else:
            out.append(Verdict(HELD, cname, obs=obs, nontrivial=bool(bnames or onames) and res["status"] == "ok", key=cname,
                               sample={"flags": flags, "blocklisted": sorted(bnames), "opaque": sorted(onames)} if (i % 13 == 0 and s == 0) else None))
        # without the user's definitions the only errors must be "cannot find type X" for exactly the blocklisted names
        if bnames and res["status"] == "ok" and s == 0:
            b2 = os.path.join(d, "nodef.rs")
            rc, so, se, _ = htypes.bindgen(hdr_override or hp.header, flags, b2)
            if rc == 0:
                w = write(os.path.join(d, "wnodef.rs"), '#![allow(warnings)]\ninclude!("%s");\n' % b2)
                rcr, sor, ser, _ = sh(["rustc", "--edition", "2021", "--crate-type", "lib", "--emit=metadata", "-o", os.path.join(d, "wnodef.rmeta"), w], timeout=120)
                msgs = re.findall(r"^error(?:\[E\d+\])?: ([^\n]*)", ser, re.M)
                missing = set(re.findall(r"cannot find type `(\w+)`", ser))
                # `pub use self::E as T;` (typedef of a blocklisted enum) reports the missing name as an unresolved import
                missing |= set(re.findall(r"unresolved import `self::(\w+)`", ser))
                other = [m for m in msgs if "cannot find type" not in m and "aborting due to" not in m and "cannot find struct" not in m
                         and not re.match(r"unresolved import `self::\w+`", m)]
                obs2 = {"undefined_name_runs": 1}
                used = {bn for bn in bnames if re.search(r"\b%s\b" % re.escape(bn), open(b2).read())}
                if rcr == 0 and used:
                    out.append(Verdict(VIOLATED, cname + "-nodef", "bindings compile without a definition of blocklisted %s although they name it" % sorted(used), files=files))
                elif other or (missing - bnames):
                    out.append(Verdict(VIOLATED, cname + "-nodef", "without user definitions rustc reports more than the blocklisted names: missing=%s other=%s" % (
                        sorted(missing - bnames), other[:3]), files=dict(files, **{"nodef.rs": open(b2).read()})))
                else:
                    out.append(Verdict(HELD, cname + "-nodef", obs=obs2))
    return out


VOUCH_CFG = dict(p_bitfield=0.05, bf_in_union=False, p_packed=0.0, p_aligned=0.0, p_pragma=0.0, p_field_align=0.0, p_fam=0.0, p_zero_len=0.0,
                 p_union=0.0, p_anon=0.0, p_inline_named=0.0, depth=1, n_records=(4, 7), p_tagless_typedef=0.0, p_enum=0.0, allow_enum_bitfield=False)


def vouch_case(chk, i):
    """the user vouches (ParseCallbacks::blocklisted_type_implements_trait => Yes): containers derive through the blocklisted type again"""
    from . import c08
    rng = chk.rng("vouch", i)
    model = G.Gen(rng, VOUCH_CFG).generate()
    cands = [r for r in model.records if any(direct_container(o, {r.rust_name}) for o in model.records if o is not r)]
    if not cands:
        return None
    b = rng.choice(cands)
    d = chk.dir("v%d" % (i % 32))
    hdr = write(os.path.join(d, "v%d.h" % i), model.header())
    out_rs = os.path.join(d, "v%d.rs" % i)
    methods = [["header", hdr], ["blocklist_type", b.rust_name], ["layout_tests", "false"]] + [[m, "true"] for m in (
        "derive_default", "derive_hash", "derive_partialeq", "derive_eq", "derive_partialord", "derive_ord")]
    name = "vouch-%d" % i
    res = {}
    for tag, vouch in (("no", []), ("yes", [b.rust_name])):
        rc, r, se, _ = drv.drive({"jobs": [{"methods": methods, "callbacks": "record", "vouch": vouch, "callbacks_full": True, "out": out_rs}]}, d, "v" + tag, timeout=120, cpu=100)
        if rc != 0 or not r or not r["results"][0].get("ok"):
            return Verdict(INCONCLUSIVE, name, "driver failed: %s" % se[-200:])
        inv = htypes.inventory(out_rs)
        res[tag] = ({it["name"]: set(it.get("derives", [])) & NINE for it in inv["items"] if it["kind"] in ("struct", "union")},
                    [l for l in r["results"][0]["callbacks"] if l.startswith("blocklisted_type_implements_trait")])
    problems = []
    memo = {id(b): {"float": False, "ptr": False, "big": False, "union": False, "enum": False, "fnptr": False, "fnptr_many": False}}
    nchk = 0
    for rr in model.records:
        if rr is b or not direct_container(rr, {b.rust_name}):
            continue
        nchk += 1
        no = res["no"][0].get(rr.rust_name)
        yes = res["yes"][0].get(rr.rust_name)
        if no is None or yes is None:
            continue
        if no:
            problems.append("%s contains blocklisted %s; without vouching it derives %s" % (rr.rust_name, b.rust_name, sorted(no)))
        want = c08.spec_derives(rr, memo)
        if yes != want:
            problems.append("%s contains blocklisted %s; the user vouches for every trait: derives %s, the rules give %s" % (
                rr.rust_name, b.rust_name, sorted(yes), sorted(want)))
    if not res["yes"][1]:
        problems.append("blocklisted_type_implements_trait was never asked")
    obs = {"vouch_cases": 1, "vouched_containers_checked": nchk, "vouch_callback_queries": len(res["yes"][1])}
    if problems:
        return Verdict(VIOLATED, name, "\n".join(problems[:8]), files={"header.h": model.header(), "blocklisted": b.rust_name}, obs=obs)
    return Verdict(HELD, name, obs=obs, nontrivial=nchk >= 1, key=name)


def failing_assertions(ser):
    """names of bindgen's layout assertions that rustc could not evaluate (the asserted number is clang's)"""
    return set(re.findall(r'\["((?:Size|Alignment) of [^"]+|Offset of field: [^"]+)"\]', ser))


def cxx_case(chk, i):
    """C++ class graphs (bases, virtual methods, templates): making a class opaque must leave the layout of every class that uses it
    (as base, member, array element, template argument) as it was; bindgen's own layout assertions carry clang's numbers, so
    the oracle is differential: an assertion that evaluates in the unselected run must still evaluate with the selection."""
    from .. import gen_graph
    rng = chk.rng("cxx", i)
    g = gen_graph.generate(rng, lang="cxx")
    orders, _ = gen_graph.valid_orders(g, rng, 1)
    if not orders:
        return None
    d = chk.dir("x%d" % (i % 32))
    name = "cxx-%d" % i
    text = gen_graph.render(g, orders[0], hoist=True)
    hdr = write(os.path.join(d, "g%d.hpp" % i), text)
    cargs = ["--", "-x", "c++", "-std=c++14"]

    def gen_and_compile(tag, flags):
        b = os.path.join(d, "b%d_%s.rs" % (i, tag))
        rc, so, se, _ = sh([build.BINDGEN, hdr] + flags + ["-o", b] + cargs, timeout=120, cpu=100)
        if rc != 0:
            return None, None, "bindgen failed: " + se[-300:]
        rcr, sor, ser, _ = sh(["rustc", "--edition", "2021", "--crate-type", "lib", "--emit=metadata", "-A", "warnings", "-o", os.path.join(d, "m%d_%s.rmeta" % (i, tag)), b], timeout=180)
        return b, (rcr, ser), None
    b0, r0, err = gen_and_compile("base", [])
    if err:
        return Verdict(INCONCLUSIVE, name, err)
    f0 = failing_assertions(r0[1])
    other0 = [m for m in re.findall(r"^error(?:\[E\d+\])?: ([^\n]*)", r0[1], re.M) if "aborting" not in m and "evaluation" not in m and "index out of bounds" not in m
              and "attempt to compute" not in m]
    classes = [n for n in g.classes() if n.kind == "class"]
    if not classes:
        return None
    out = []
    for s_ in range(chk.pick(2, 5)):
        r = chk.rng("cxxsel", i, s_)
        # prefer classes that others build on: bases first, then by-value members
        used_as_base = [c for c in classes if any(c.name in o.bases for o in classes)]
        used_by_value = [c for c in classes if any(c.name in o.needs_complete for o in g.nodes if o is not c)]
        poly_bases = [c for c in used_as_base if c.attrs.get("virtual")]
        pool = poly_bases * 6 + used_as_base * 3 + used_by_value * 2 + classes
        chosen = sorted(set(x.name for x in r.sample(pool, min(len(pool), r.randint(1, 2)))))
        flags = []
        # (only templates that no other template instantiates with its own parameters: partially dependent instantiations are the
        # recorded C01 finding template-mixed-dependent-instantiation)
        tpls = [n for n in g.classes() if n.kind == "template"
                and not any(o.kind == "template" and o is not n and any((n.name + "<") in m_ for m_ in o.members) for o in g.classes())]
        if tpls and r.random() < 0.4:
            # opaque template: its instantiations become inline blobs of exactly the instantiation's size and alignment
            tp = r.choice(tpls)
            chosen = [c for c in chosen if r.random() < 0.5]
            flags += ["--opaque-type", tp.name + ".*"]
        for c in chosen:
            flags += ["--opaque-type", c]
        cname = "%s-s%d" % (name, s_)
        b1, r1, err = gen_and_compile("s%d" % s_, flags)
        if err:
            out.append(Verdict(INCONCLUSIVE, cname, err))
            continue
        files = {"header.hpp": text, "flags.txt": " ".join(flags), "bindings.rs": open(b1).read(), "bindings_unselected.rs": open(b0).read(), "rustc.txt": r1[1][-3000:]}
        f1 = failing_assertions(r1[1])
        new = sorted(f1 - f0)
        obs = {"cxx_selections": 1, "cxx_opaque_classes": len(chosen), "cxx_opaque_templates": int(any(f.endswith(".*") for f in flags)), "cxx_assertions_in_unselected_run": len(set(re.findall(r'\["(?:Size|Alignment) of [^"]+"\]', open(b0).read()))),
               "cxx_selection_hits_base": int(any(c in [x.name for x in used_as_base] for c in chosen)),
               "cxx_selection_hits_virtual_class": int(any(g.by_name(c).attrs.get("virtual") for c in chosen))}
        problems = []
        sig = None
        if new:
            problems.append("layout assertions that hold without the selection fail with --opaque-type %s: %s" % (chosen, new[:6]))
            # recorded finding: an opaque class that only INHERITS its vtable is not known to have one (opaque types do not trace their
            # bases: the C07 finding), so a derived class that declares a virtual method gets a second vtable pointer
            def ancestors_virtual(c):
                return any(g.by_name(b_).attrs.get("virtual") or ancestors_virtual(g.by_name(b_)) for b_ in c.bases)
            def explains(tn):
                dcls = g.by_name(tn)
                if dcls is None or not dcls.attrs.get("virtual"):
                    return False
                def reaches(c):
                    for b_ in c.bases:
                        bc = g.by_name(b_)
                        if b_ in chosen and not bc.attrs.get("virtual") and ancestors_virtual(bc):
                            return True
                    return False
                return reaches(dcls)
            def owner(a):
                return a.split(" of ", 1)[1].split("::")[0].replace("field: ", "").strip() if " of " in a else a
            owners = set(owner(a) for a in new)
            # classes containing such a class by value / deriving from it inherit the wrong size
            def tainted(tn, depth=0):
                c = g.by_name(tn)
                if c is None or depth > 6:
                    return False
                return explains(tn) or any(tainted(x, depth + 1) for x in (set(c.bases) | set(c.needs_complete)) if x != tn)
            if owners and all(tainted(o_) for o_ in owners):
                sig = "c10.opaque-base-with-inherited-vtable"
        inv = htypes.inventory(b1)
        if "error" not in inv:
            for it in inv["items"]:
                if it["kind"] in ("struct", "union") and it["name"] in chosen:
                    bad = [f["name"] for f in it["fields"] if not (f["name"].startswith("_bindgen_opaque_blob") or f["name"] == "_address" or f["name"].startswith("_bindgen_align"))]
                    if bad:
                        problems.append("opaque class %s exposes fields %s" % (it["name"], bad))
        if problems:
            out.append(Verdict(VIOLATED, cname, "\n".join(problems), files=files, obs=obs, signature=sig))
            continue
        other1 = [m for m in re.findall(r"^error(?:\[E\d+\])?: ([^\n]*)", r1[1], re.M) if "aborting" not in m and "evaluation" not in m and "index out of bounds" not in m
                  and "attempt to compute" not in m]
        if r1[0] != 0 and len(other1) > len(other0):
            # compile errors that are not layout assertions (derives through the opaque member etc.) are C01's / the recorded C07-C10 finding
            out.append(Verdict(HELD, cname, obs=dict(obs, cxx_selections_with_unrelated_compile_errors=1)))
            continue
        out.append(Verdict(HELD, cname, obs=obs, nontrivial=obs["cxx_assertions_in_unselected_run"] >= 2, key=cname))
    return out


SMALL_OPAQUE = """template <class A, class B> struct pair { A first; B second; };
template <class A> struct box { A v; };
template <class A> struct trio { A a[3]; };
struct ShortPair { char lead; pair<short, short> p; char tail; };
struct CharPair { char lead; pair<char, char> p; char tail; short s; };
struct Boxes { char lead; box<char> b[4]; char mid; box<short> s[2]; int after; };
struct Trio { char lead; trio<char> t; char mid; trio<short> u; long l; };
struct Holder { ShortPair a; CharPair b; Boxes c; Trio d; pair<char, short> e; char z; };
typedef pair<char, char> cc_t; typedef box<short> bs_t;
struct ViaTypedef { char lead; cc_t a; char m; bs_t b; char t; };
"""


def small_opaque_case(chk, k):
    """inline opaque blobs of small sizes whose alignment is below their size (pair<char,char>, box<char>[4], ...): containers keep C's layout"""
    flags = [["--opaque-type", "pair.*"], ["--opaque-type", "pair.*", "--opaque-type", "box.*", "--opaque-type", "trio.*"],
             ["--opaque-type", "box.*", "--with-derive-default", "--with-derive-hash", "--with-derive-partialeq"], ["--opaque-type", "cc_t", "--opaque-type", "bs_t"],
             ["--opaque-type", ".*_t", "--opaque-type", "trio.*", "--rust-target", "1.70"]][k]
    d = chk.dir("small%d" % k)
    hdr = write(os.path.join(d, "s.hpp"), SMALL_OPAQUE)
    name = "small-opaque-%d" % k
    b = os.path.join(d, "b.rs")
    rc, so, se, _ = sh([build.BINDGEN, hdr] + flags + ["-o", b, "--", "-x", "c++", "-std=c++14"], timeout=120, cpu=100)
    if rc != 0:
        return Verdict(INCONCLUSIVE, name, "bindgen failed: " + se[-300:])
    old = "--rust-target" in flags
    rcr, sor, ser, _ = sh(["rustc", "--edition", "2021", "-A", "warnings", "-o", os.path.join(d, "m"), b] + (["--test"] if old else ["--crate-type", "lib", "--emit=metadata"]), timeout=180)
    files = {"header.hpp": SMALL_OPAQUE, "flags.txt": " ".join(flags), "bindings.rs": open(b).read(), "rustc.txt": ser[-3000:]}
    f1 = failing_assertions(ser)
    nassert = len(re.findall(r'\["(?:Size|Alignment) of [^"]+"\]|\["Offset of field: [^"]+"\]|assert_eq ?!', files["bindings.rs"]))
    obs = {"small_opaque_cases": 1, "small_opaque_assertions": nassert}
    if f1:
        return Verdict(VIOLATED, name, "layout assertions fail with %s: %s" % (flags, sorted(f1)[:8]), files=files, obs=obs)
    if rcr != 0:
        return Verdict(HELD, name, obs=dict(obs, cxx_selections_with_unrelated_compile_errors=1))
    if old:
        rct, sot, set_, _ = sh([os.path.join(d, "m")], timeout=120)
        if rct != 0:
            return Verdict(VIOLATED, name, "generated layout #[test] functions fail with %s: %s" % (flags, (sot + set_)[-500:]), files=files, obs=obs)
    return Verdict(HELD, name, obs=obs, nontrivial=nassert >= 6, key=name)


TDB_POOL = [
    # (name, C declaration, the user's replacement: right layout, Copy + Clone and nothing else)
    ("handle_t", "typedef unsigned long handle_t;", "#[repr(transparent)] #[derive(Copy, Clone)] pub struct handle_t(pub u64);"),
    ("small_t", "typedef short small_t;", "#[repr(transparent)] #[derive(Copy, Clone)] pub struct small_t(pub i16);"),
    ("fp_t", "typedef float fp_t;", "#[repr(transparent)] #[derive(Copy, Clone)] pub struct fp_t(pub f32);"),
    ("inner_t", "struct Inner { int a; int b; };\ntypedef struct Inner inner_t;", "#[repr(C)] #[derive(Copy, Clone)] pub struct inner_t(pub [u32; 2]);"),
    ("quad_t", "typedef int quad_t[4];", "#[repr(C)] #[derive(Copy, Clone)] pub struct quad_t(pub [i32; 4]);"),
    ("Blk", "struct Blk { long x; };", "#[repr(C)] #[derive(Copy, Clone)] pub struct Blk(pub [u64; 1]);"),
    ("chain_t", "typedef unsigned char base_t;\ntypedef base_t chain_t;", "#[repr(transparent)] #[derive(Copy, Clone)] pub struct chain_t(pub u8);"),
]
TDB_FLAGSETS = [["--impl-debug"], ["--impl-debug", "--impl-partialeq", "--with-derive-partialeq"], ["--with-derive-default", "--impl-debug"],
                ["--impl-partialeq", "--with-derive-partialeq", "--with-derive-eq", "--with-derive-hash"], [],
                ["--impl-debug", "--with-derive-default", "--with-derive-hash", "--with-derive-partialeq", "--impl-partialeq", "--with-derive-partialord"]]


def typedef_block_case(chk, i):
    """Blocklisted TYPEDEFS (of scalars, records, arrays, other typedefs) and records, replaced by the user with types that implement nothing
    but Copy/Clone, used by value / in arrays / behind pointers by containers that do and do not get hand-written impls (--impl-debug,
    --impl-partialeq): the bindings plus the user's definitions compile, i.e. no derive and no hand-written impl goes through the
    blocklisted name."""
    rng = chk.rng("tdb", i)
    d = chk.dir("tdb%d" % (i % 32))
    pool = list(TDB_POOL)
    rng.shuffle(pool)
    blocked = pool[:rng.randint(1, 3)]
    plain = pool[len(blocked):len(blocked) + 2]
    decls = [p_[1] for p_ in pool]
    conts = []
    for k in range(rng.randint(3, 7)):
        mem = []
        for j in range(rng.randint(1, 3)):
            tn = rng.choice(blocked + blocked + plain)[0]
            tn_c = ("struct Blk" if tn == "Blk" else tn)
            form = rng.choice(["value", "value", "array", "array2", "pointer"])
            mem.append({"value": "%s m%d;", "array": "%s m%d[3];", "array2": "%s m%d[2][2];", "pointer": "%s *m%d;"}[form] % (tn_c, j))
        if rng.random() < 0.6:
            mem.append(rng.choice(["double big[40];", "char name[64];", "long pad[33];"]))      # no derived Debug / Default / PartialEq: hand-written ones
        mem.append("int tail;")
        conts.append("%s C%d { %s };" % (rng.choice(["struct", "struct", "union"]), k, " ".join(mem)))
    text = "\n".join(decls + conts) + "\n"
    hdr = write(os.path.join(d, "tdb%d.h" % i), text)
    flags = list(rng.choice(TDB_FLAGSETS)) + ["--no-layout-tests"]
    kind = rng.choice(["--blocklist-type", "--blocklist-type", "--blocklist-item"])
    for b in blocked:
        flags += [kind, b[0], "--raw-line", b[2]]
    name = "typedef-block-%d" % i
    o = os.path.join(d, "tdb%d.rs" % i)
    rc, so, se, _ = htypes.bindgen(hdr, flags, o)
    if rc != 0:
        return Verdict(INCONCLUSIVE, name, "bindgen failed: " + se[-300:])
    btext = open(o).read()
    files = {"header.h": text, "flags.txt": " ".join(flags), "bindings.rs": btext}
    obs = {"typedef_block_headers": 1, "blocklisted_typedefs": sum(1 for b in blocked if b[0] != "Blk"), "hand_written_impls": btext.count("impl ::std::fmt::Debug") + btext.count("impl PartialEq")}
    w = write(os.path.join(d, "tdbw%d.rs" % i), "#![allow(warnings)]\n" + btext)
    rcr, sor, ser, _ = sh(["rustc", "--edition", "2021", "--crate-type", "lib", "--emit=metadata", "-o", os.path.join(d, "tdbw%d.rmeta" % i), w], timeout=120)
    bn = {b[0] for b in blocked}
    if rcr != 0:
        named = set(re.findall(r"`(\w+)` doesn't implement `\w+`", ser)) | set(re.findall(r"the trait bound `(\w+): \w+` is not satisfied", ser)) | set(
            re.findall(r"binary operation `[=!]=` cannot be applied to type `(?:\[)?(\w+)", ser)) | set(re.findall(r"can't compare `(\w+)`", ser))
        if named & bn:
            return Verdict(VIOLATED, name, "the bindings need a trait of blocklisted %s that the user's definition (right layout, Copy + Clone) does not have: %s" % (
                sorted(named & bn), htypes.first_error(ser)[:600]), files=files, obs=obs)
        return Verdict(INCONCLUSIVE, name, "bindings do not compile (C01's): " + htypes.first_error(ser)[:300], obs=obs)
    # bindgen itself defines none of the blocklisted names
    inv = htypes.inventory(o)
    if "error" not in inv:
        for it in inv["items"]:
            if it["kind"] in ("struct", "union", "type") and it["name"] in bn and "pub [" not in it.get("tokens", "") and "(pub" not in it.get("tokens", ""):
                return Verdict(VIOLATED, name, "blocklisted %s is defined by bindgen" % it["name"], files=files, obs=obs)
    return Verdict(HELD, name, obs=obs, nontrivial=True, key=name)


def run(chk):
    chk.map(lambda k: small_opaque_case(chk, k), range(5))
    chk.map(lambda i: typedef_block_case(chk, i), range(chk.pick(40, 400)), budget_s=chk.pick(200, 900))
    chk.map(lambda i: case(chk, i), range(chk.pick(40, 400)), budget_s=chk.pick(500, 3000))
    chk.map(lambda i: vouch_case(chk, i), range(chk.pick(40, 300)), budget_s=chk.pick(200, 900))
    chk.map(lambda i: cxx_case(chk, i), range(chk.pick(60, 500)), budget_s=chk.pick(200, 900))
    return chk.finish(
        rule="case = (generated C type graph, selection) where a selection blocklists (by type or item pattern) and/or makes opaque a random "
             "subset of the named records (and enums) that other records use as members, array elements, pointees; the harness supplies "
             "`#[repr(C, align(A))] struct X([u8; S])` with clang's numbers for each blocklisted type. Non-trivial = the C+Rust probe ran. "
             "Oracle: no second definition of a blocklisted name, use sites still name it, without the user's definition rustc misses exactly "
             "those names, sizes/alignments of ALL records and member offsets/values of unaffected records equal C (H-TYPES probe), opaque "
             "types expose only the blob (no fields, accessors, methods), direct containers of blocklisted types derive none of the nine traits. "
             "C++ case = (generated class graph with bases, virtual methods, templates; 1..2 classes made opaque, preferring bases and by-value "
             "members of other classes): every layout assertion (clang's numbers) that evaluates without the selection must still evaluate "
             "with it, and the opaque class exposes only its blob. Typedef case = blocklisted typedefs (of scalars, records, arrays, "
             "typedefs) and records replaced by Copy+Clone-only user types, used by value / in arrays / behind pointers in containers with "
             "and without hand-written impls (--impl-debug / --impl-partialeq): bindings + user definitions compile.",
        assumptions=["as C02", "vouching (ParseCallbacks::blocklisted_type_implements_trait => Yes for every trait) is exercised through vf-driver on "
                     "plain-data graphs: without vouching direct containers derive nothing, with it they derive what C08's specification gives "
                     "when the blocklisted member is treated as supporting everything"])
