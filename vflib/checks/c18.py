"""C18 — extern-block merging and semantic sorting only regroup items."""
import collections
import json
import os

from .. import build, corpus, gen_funcs
from ..core import HELD, INCONCLUSIVE, VIOLATED, Verdict, sha, write
from ..core import run as sh
from ..htypes import inventory

LEVEL = "exploration"
VARIANTS = [("base", []), ("merge", ["--merge-extern-blocks"]), ("sort", ["--sort-semantically"]),
            ("both", ["--merge-extern-blocks", "--sort-semantically"])]
SORT_KEY = {"type": 0, "struct": 1, "const": 2, "layout_assert": 2, "fn": 3, "layout_test": 3, "enum": 4, "union": 5,
            "static": 6, "impl": 9, "mod": 10, "use": 11, "extern_block": 14, "macro": 15}


def flatten(inv):
    """module -> list of canonical item strings (foreign items flattened) in output order, plus block list."""
    mods = collections.OrderedDict()
    blocks = collections.defaultdict(list)
    for it in inv["items"]:
        m = it["module"]
        lst = mods.setdefault(m, [])
        if it["kind"] == "extern_block":
            key = (it["abi"], tuple(it["block_attrs"]), it["unsafety"])
            blocks[m].append(key)
            for mem in it["members"]:
                lst.append(("foreign", json.dumps([key[0], list(key[1]), key[2], mem["tokens"]])))
        elif it["kind"] == "mod":
            lst.append(("mod", it["name"] + "|" + "|".join(it["attrs"])))
        else:
            lst.append((it["kind"], it["tokens"]))
    return mods, blocks


def gen_program(chk, i, d):
    rng = chk.rng("prog", i)
    kind = rng.choice(["c", "c", "cxx", "c-abi"])
    flags, cargs = [], []
    if kind == "cxx":
        text = gen_funcs.gen_cxx(rng, rng.randint(8, 24))
        path = os.path.join(d, "p.hpp")
        flags = ["--enable-cxx-namespaces"] if rng.random() < 0.7 else []
    else:
        text, _ = gen_funcs.gen_c(rng, rng.randint(10, 50), abis=(kind == "c-abi"))
        path = os.path.join(d, "p.h")
        if kind == "c-abi":
            cargs = ["--target=i686-unknown-linux-gnu"]
    write(path, text)
    if rng.random() < 0.4:
        flags += ["--enable-function-attribute-detection"]
    if rng.random() < 0.25:
        flags += ["--rust-target", rng.choice(["1.70", "1.81", "1.82", "1.85"])]
    if rng.random() < 0.2:
        flags += ["--wasm-import-module-name", "mod%d" % i]
    if rng.random() < 0.2:
        flags += ["--override-abi", ".*fn1.*=C-unwind"]
    if rng.random() < 0.15:
        flags += ["--no-doc-comments"]
    return path, flags, cargs, text


def one(chk, case):
    kind, i = case
    d = chk.dir("%s%d" % (kind, i))
    if kind == "corpus":
        ent = corpus.entries()[i]
        path, bflags, cargs = ent[0], [f for f in ent[1] if f not in ("--merge-extern-blocks", "--sort-semantically")], ent[2]
        text = None
    else:
        path, bflags, cargs, text = gen_program(chk, i, d)
    name = "%s-%s" % (kind, os.path.basename(path) if kind == "corpus" else i)
    invs, outs, logs = {}, {}, {}
    for vn, vf in VARIANTS:
        out = os.path.join(d, vn + ".rs")
        log = os.path.join(d, vn + ".log")
        rc, so, se, _ = sh([build.BINDGEN, path] + bflags + vf + ["--formatter", "none", "-o", out, "--"] + cargs,
                            env={"BINDGEN_VERIF_LOG": log}, timeout=120, cpu=100)
        if rc != 0:
            if vn == "base":
                return Verdict(HELD, name, obs={"headers_bindgen_rejects": 1})
            return Verdict(VIOLATED, name, "bindgen succeeds without the passes but fails with %s: %s" % (vf, se[-800:]),
                           files={"header": text or path, "flags": " ".join(bflags + vf)})
        invs[vn] = inventory(out)
        if "error" in invs[vn]:
            return Verdict(VIOLATED if vn != "base" else INCONCLUSIVE, name, "output of %s does not parse: %s" % (vn, invs[vn]["error"]))
        outs[vn] = out
        logs[vn] = open(log).read() if os.path.exists(log) else ""
    base_mods, base_blocks = flatten(invs["base"])
    problems = []
    obs = {"runs": 4, "items_compared": 0, "foreign_items": 0, "modules": len(base_mods), "idempotence_lines": 0,
           "order_pairs": 0, "rustc_runs": 0}
    nforeign = sum(1 for l in base_mods.values() for k, _ in l if k == "foreign")
    obs["foreign_items"] = nforeign
    for vn, vf in VARIANTS[1:]:
        mods, blocks = flatten(invs[vn])
        if set(mods) != set(base_mods):
            problems.append("%s: module set differs: %s vs %s" % (vn, sorted(mods), sorted(base_mods)))
            continue
        for m in base_mods:
            a = collections.Counter(base_mods[m])
            b = collections.Counter(mods[m])
            obs["items_compared"] += sum(a.values())
            if a != b:
                lost = list((a - b).elements())[:3]
                new = list((b - a).elements())[:3]
                problems.append("%s: module %s item multiset differs; lost %s; new %s" % (vn, m, lost, new))
            # relative order of same-kind items
            kinds = set(k for k, _ in base_mods[m])
            for k in kinds:
                if k == "foreign" and "merge" in vn or (vn == "both" and k == "foreign"):
                    # order must be preserved within each (abi, attrs, unsafety) group
                    def groups(lst):
                        g = collections.defaultdict(list)
                        for kk, t in lst:
                            if kk == "foreign":
                                key = tuple(json.loads(t)[:3][i] if i != 1 else tuple(json.loads(t)[1]) for i in range(3))
                                g[key].append(t)
                        return g
                    ga, gb = groups(base_mods[m]), groups(mods[m])
                    obs["order_pairs"] += sum(len(v) for v in ga.values())
                    if ga != gb:
                        problems.append("%s: module %s: order of foreign items inside an (abi, attrs, unsafety) group changed" % (vn, m))
                else:
                    sa = [t for kk, t in base_mods[m] if kk == k]
                    sb = [t for kk, t in mods[m] if kk == k]
                    obs["order_pairs"] += len(sa)
                    if sa != sb and collections.Counter(sa) == collections.Counter(sb):
                        problems.append("%s: module %s: relative order of `%s` items changed" % (vn, m, k))
            if "merge" in vn or vn == "both":
                c = collections.Counter(blocks.get(m, []))
                dup = [k for k, n in c.items() if n > 1]
                if dup:
                    problems.append("%s: module %s still has %d blocks with equal (abi, attrs, unsafety): %s" % (vn, m, len(dup), dup[:2]))
        lg = logs[vn]
        for line in lg.splitlines():
            if line.startswith("POSTPROCESS"):
                obs["idempotence_lines"] += 1
                if "passes_idempotent=false" in line:
                    problems.append("%s: applying the passes to their own output changed it (hook K4)" % vn)
    # rustc on a sample: if base compiles the processed outputs must too
    if kind != "corpus" and not cargs and "--wasm-import-module-name" not in bflags and chk.rng("rustc", i).random() < chk.pick(0.25, 0.5):
        def compiles(p):
            rc, so, se, _ = sh(["rustc", "--edition", "2021", "--crate-type", "lib", "--emit=metadata", "-A", "warnings",
                                 "-o", os.path.join(d, "x.rmeta"), p], timeout=120)
            return rc == 0, se
        okb, _ = compiles(outs["base"])
        obs["rustc_runs"] += 1
        if okb:
            for vn in ("merge", "sort", "both"):
                ok, se = compiles(outs[vn])
                obs["rustc_runs"] += 1
                if not ok:
                    problems.append("%s: unprocessed bindings compile, processed ones do not: %s" % (vn, se[:600]))
    files = {"flags.txt": " ".join(bflags + ["--"] + cargs), "header": text or ("see " + path)}
    if problems:
        for vn in outs:
            files[vn + ".rs"] = open(outs[vn]).read()
        return Verdict(VIOLATED, name, "\n".join(problems[:10]), files=files, obs=obs)
    return Verdict(HELD, name, obs=obs, nontrivial=nforeign >= 2, key=name,
                   sample={"case": name, "flags": bflags, "foreign_items": nforeign} if nforeign >= 4 else None)


def run(chk):
    ents = corpus.entries()
    idx = list(range(len(ents)))
    chk.rng("corpus").shuffle(idx)
    ncorp = len(ents)
    ngen = chk.pick(80, 600)
    cases = [("corpus", i) for i in idx[:ncorp]] + [("gen", i) for i in range(ngen)]
    chk.map(lambda c: one(chk, c), cases, budget_s=chk.pick(400, 2400))
    return chk.finish(
        rule="case = one header run 4 times (no pass / merge / sort / both); non-trivial = the unprocessed bindings contain >= 2 "
             "foreign items; compared: per-module multiset of item token strings with foreign items flattened to "
             "(abi, block attrs, unsafety, item incl. attrs), no two merged blocks with equal key, per-kind relative order, "
             "rustc on a sample, hook K4 idempotence lines",
        assumptions=["syn parses what bindgen emitted; token-string equality of items",
                     "run with --formatter none: rustfmt's reorder_imports would re-sort adjacent `use` items (see C15)",
                     "idempotence is observed in-process by hook K4 (passes re-applied to a clone of their own output)"])

