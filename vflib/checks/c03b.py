"""C03 part (b): generated records with bit-fields, C <-> Rust differential."""
from .. import gen_ctypes as G
from .. import htypes
from ..core import HELD, INCONCLUSIVE, VIOLATED, Verdict
from . import c02

CFG = dict(bitfield_only=True, p_bitfield=0.6, bf_in_union=False, p_packed=0.2, p_pragma=0.15, p_aligned=0.08,
           p_union=0.15, p_anon=0.12, p_inline_named=0.08, depth=2, n_records=(2, 5), n_fields=(1, 5), p_fam=0.03,
           p_array=0.15)


def S(c, signed, bits, kind="int"):
    return G.Scalar(c, kind, signed, bits)


def repro_models():
    """Hand-built models for the recorded C03 findings (run on every invocation)."""
    out = []
    # signed getter is zero-extended
    m = G.Model()
    r = G.Record("struct", "SG")
    r.fields = [G.Field("a", S("int", True, 32), bits=5), G.Field("b", S("signed char", True, 8), bits=3),
                G.Field("c", S("unsigned int", False, 32), bits=7), G.Field("d", S("long long", True, 64), bits=33)]
    m.records.append(r)
    m.decls.append(r)
    out.append(("repro-signed-getter", m, []))
    # 9-byte span
    m = G.Model()
    r = G.Record("struct", "SP")
    r.packed = True
    r.fields = [G.Field("a", S("unsigned int", False, 32), bits=4), G.Field("b", S("unsigned long long", False, 64), bits=64),
                G.Field("c", S("unsigned int", False, 32), bits=4)]
    m.records.append(r)
    m.decls.append(r)
    out.append(("repro-span-over-64", m, []))
    # union with several bit-fields
    m = G.Model()
    r = G.Record("union", "UB")
    r.fields = [G.Field("a", S("unsigned int", False, 32), bits=31), G.Field("b", S("unsigned char", False, 8), bits=1)]
    m.records.append(r)
    m.decls.append(r)
    out.append(("repro-union-bitfields", m, []))
    return out


def repro_case(chk, name, model, flags):
    d = chk.dir(name)
    hp = htypes.HeaderProbe(d, model)
    res = hp.run_optset("r", flags)
    probs = htypes.classify(res, "r", model)
    files = dict(hp.files())
    files.update(res.get("files", {}))
    out = []
    viol = [p for p in probs if p[0] == "violation"]
    if name == "repro-union-bitfields":
        # any failure of this reproducer is the recorded union defect (unit sized by the last member)
        viol = [(k, w, "c03.union-bitfield-unit") for k, w, s in viol]
    seen = set()
    for k, what, sig in viol:
        if sig in seen:
            continue
        seen.add(sig)
        out.append(Verdict(VIOLATED, name, "\n".join(w for _, w, s in viol if s == sig)[:2500], files=files, signature=sig))
    if not viol:
        out.append(Verdict(HELD, name, obs=res.get("obs") or {}))
    return out


def run_b(chk):
    n = chk.pick(64, 600)
    n_opts = chk.pick(2, 5)
    vg = chk.pick(0, 8)
    chk.map(lambda i: c02.header_case(chk, "b%d" % i if False else i + 100000, CFG, n_opts, vg, None), range(n),
            budget_s=chk.pick(500, 2400))
    chk.map(lambda t: repro_case(chk, *t), repro_models())
