"""C03 part (b): generated records with bit-fields, C <-> Rust differential."""
from .. import gen_ctypes as G
from .. import htypes
from ..core import HELD, INCONCLUSIVE, VIOLATED, Verdict
from . import c02

CFG = dict(bitfield_only=True, p_bitfield=0.6, bf_in_union=False, p_packed=0.2, p_pragma=0.15, p_aligned=0.08,
           p_union=0.15, p_anon=0.12, p_inline_named=0.08, depth=2, n_records=(2, 5), n_fields=(1, 5), p_fam=0.03,
           p_array=0.15)


def S(c, signed, bits, kind="int"):
    return G.Scalar(c, kind, signed, bits)


def repro_models():
    """Hand-built models for the recorded C03 findings (run on every invocation)."""
    out = []
    # signed getter is zero-extended
    m = G.Model()
    r = G.Record("struct", "SG")
    r.fields = [G.Field("a", S("int", True, 32), bits=5), G.Field("b", S("signed char", True, 8), bits=3),
                G.Field("c", S("unsigned int", False, 32), bits=7), G.Field("d", S("long long", True, 64), bits=33)]
    m.records.append(r)
    m.decls.append(r)
    out.append(("repro-signed-getter", m, []))
    # 9-byte span
    m = G.Model()
    r = G.Record("struct", "SP")
    r.packed = True
    r.fields = [G.Field("a", S("unsigned int", False, 32), bits=4), G.Field("b", S("unsigned long long", False, 64), bits=64),
                G.Field("c", S("unsigned int", False, 32), bits=4)]
    m.records.append(r)
    m.decls.append(r)
    out.append(("repro-span-over-64", m, []))
    # union with several bit-fields
    m = G.Model()
    r = G.Record("union", "UB")
    r.fields = [G.Field("a", S("unsigned int", False, 32), bits=31), G.Field("b", S("unsigned char", False, 8), bits=1)]
    m.records.append(r)
    m.decls.append(r)
    out.append(("repro-union-bitfields", m, []))
    # regressions of repaired defects (must hold): shapes of the fix commits cdd653bd, 02377689, 3c2ba0f3, 55fd0099
    def rec(name, fields, pragma=None, packed=False):
        m_ = G.Model()
        r_ = G.Record("struct", name)
        r_.fields = fields
        if pragma:
            r_.pragma_pack = pragma
        r_.packed = packed
        m_.records.append(r_)
        m_.decls.append(r_)
        return m_
    sc, sh_, ui, ull, ch, bl = S("unsigned char", False, 8), S("unsigned short", False, 16), S("unsigned int", False, 32), S("unsigned long long", False, 64), S("char", True, 8), S("_Bool", False, 8, "bool")
    # clang-reported offset must not be re-aligned: b lives at bit 6 under pack(4)
    out.append(("fixed-02377689-pack4-straddle", rec("FX1", [G.Field(None, sc, bits=3), G.Field("a", sh_, bits=3), G.Field("b", sc, bits=8)], pragma=4), []))
    out.append(("fixed-02377689-pack2-straddle", rec("FX2", [G.Field("c", ch), G.Field("a", ui, bits=13), G.Field("b", sh_, bits=9), G.Field("d", sc, bits=7)], pragma=2), []))
    # a run of bit-fields starts where C starts it (byte 4, not 1)
    out.append(("fixed-cdd653bd-unit-after-bool", rec("FX3", [G.Field("a", bl), G.Field("b", ui, bits=31)]), []))
    # holes after `int :0` in packed / packed(N) structs
    out.append(("fixed-3c2ba0f3-pack1-zero-width", rec("FX4", [G.Field("a", S("short", True, 16)), G.Field(None, S("int", True, 32), bits=0), G.Field("b", ull)], pragma=1), []))
    # packed(N) records (pragma pack + an over-aligned plain member) with a zero-width separator opening a hole in front of a bit-field run
    out.append(("fixed-packN-separator-run-2", rec("FX6", [G.Field("id", S("int", True, 32)), G.Field("tag", ch), G.Field(None, S("short", True, 16), bits=0),
                                                       G.Field("kind", ui, bits=5), G.Field("len", ui, bits=11)], pragma=2), []))
    out.append(("fixed-packN-separator-run-4", rec("FX7", [G.Field("q", ull), G.Field("t", ch), G.Field(None, S("int", True, 32), bits=0), G.Field("a", ui, bits=3),
                                                       G.Field("b", sh_, bits=9), G.Field("z", ch)], pragma=4), []))
    out.append(("fixed-packN-separator-run-2b", rec("FX8", [G.Field("d", S("double", True, 64, "float")), G.Field("t", ch), G.Field("u", ch), G.Field("v", ch),
                                                        G.Field(None, S("short", True, 16), bits=0), G.Field("a", sc, bits=7), G.Field("b", ui, bits=17)], pragma=2), []))
    out.append(("fixed-55fd0099-pack2-zero-width", rec("FX5", [G.Field("a", ch), G.Field(None, S("int", True, 32), bits=0), G.Field("b", S("int", True, 32))], pragma=2), []))
    return out


def repro_case(chk, name, model, flags):
    d = chk.dir(name)
    hp = htypes.HeaderProbe(d, model)
    res = hp.run_optset("r", flags)
    probs = htypes.classify(res, "r", model)
    files = dict(hp.files())
    files.update(res.get("files", {}))
    out = []
    viol = [p for p in probs if p[0] == "violation"]
    if name == "repro-union-bitfields":
        # any failure of this reproducer is the recorded union defect (unit sized by the last member)
        viol = [(k, w, "c03.union-bitfield-unit") for k, w, s in viol]
    seen = set()
    for k, what, sig in viol:
        if sig in seen:
            continue
        seen.add(sig)
        out.append(Verdict(VIOLATED, name, "\n".join(w for _, w, s in viol if s == sig)[:2500], files=files, signature=sig))
    if not viol:
        out.append(Verdict(HELD, name, obs=res.get("obs") or {}))
    return out


def run_b(chk):
    n = chk.pick(64, 600)
    n_opts = chk.pick(2, 5)
    vg = chk.pick(0, 8)
    chk.map(lambda i: c02.header_case(chk, "b%d" % i if False else i + 100000, CFG, n_opts, vg, None), range(n),
            budget_s=chk.pick(500, 2400))
    chk.map(lambda t: repro_case(chk, *t), repro_models())
