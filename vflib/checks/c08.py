"""C08 — traits are derived exactly when the rules allow; hand-written impls act like derives."""
import os
import re

from .. import build, htypes, probes
from .. import gen_ctypes as G
from ..core import HELD, INCONCLUSIVE, VIOLATED, Verdict, write, BUILD
from ..core import run as sh

LEVEL = "exploration"
NINE = ["Copy", "Clone", "Debug", "Default", "Hash", "PartialEq", "Eq", "PartialOrd", "Ord"]
ALL_DERIVES = ["--with-derive-default", "--with-derive-hash", "--with-derive-partialeq", "--with-derive-eq", "--with-derive-ord", "--with-derive-partialord"]
SPEC_CFG = dict(p_fnptr_many=0.35, p_fn_typedef=0.4, p_bitfield=0.1, bf_in_union=False, p_packed=0.0, p_aligned=0.0, p_pragma=0.0, p_field_align=0.0, p_fam=0.0, p_zero_len=0.0,
                p_union=0.15, p_anon=0.1, p_inline_named=0.08, p_float=0.2, p_fnptr=0.1, depth=2, n_records=(3, 7), p_enum_fixed=0.0,
                allow_enum_bitfield=False)
BEH_CFG = dict(p_bitfield=0.2, bf_in_union=False, p_packed=0.1, p_aligned=0.06, p_pragma=0.05, p_fam=0.0, p_zero_len=0.0, p_union=0.1,
               depth=2, n_records=(2, 5), allow_enum_bitfield=False)


def facts(rec, memo):
    """constituent facts of a record (by value, transitively)"""
    if id(rec) in memo:
        return memo[id(rec)]
    f = {"float": False, "ptr": False, "big": False, "union": rec.kw == "union", "enum": False, "fnptr": False, "fnptr_many": False}
    memo[id(rec)] = f
    for fl in rec.fields:
        if fl.inline is not None:
            sub = facts(fl.inline, memo)
            for k in f:
                f[k] = f[k] or sub[k]
            continue
        t = G.resolve(fl.ty) if fl.ty is not None else None
        while isinstance(t, G.Array):
            n = 1
            for dmn in t.dims:
                if dmn and dmn > 32:
                    f["big"] = True
            t = G.resolve(t.elem)
        if isinstance(t, G.RecordRef):
            sub = facts(t.rec, memo)
            for k in f:
                f[k] = f[k] or sub[k]
        elif isinstance(t, G.Scalar):
            if t.kind == "float":
                f["float"] = True
            elif t.kind == "ptr":
                f["ptr"] = True
            elif t.kind == "fnptr":
                f["fnptr"] = True
                if len(t.args) > 12:
                    f["fnptr_many"] = True
            elif t.kind == "enum":
                f["enum"] = True
    return f


def spec_derives(rec, memo, rust_enums=False):
    f = facts(rec, memo)
    if f["union"]:
        return {"Copy", "Clone"}
    if f["fnptr_many"]:
        # function pointers with more than 12 parameters implement only Copy/Clone (and, as Option<fn>, Default)
        s = {"Copy", "Clone"}
        if not f["ptr"] and not f["big"] and not (rust_enums and f["enum"]):
            s.add("Default")
        return s
    s = {"Copy", "Clone", "Debug", "PartialEq", "PartialOrd"}
    if not f["float"]:
        s |= {"Hash", "Eq", "Ord"}
    if not f["ptr"] and not f["big"] and not (rust_enums and f["enum"]):
        s.add("Default")
    return s


def all_records(model):
    """[(rust_name, rec)] including inline ones by bindgen's naming scheme"""
    out = []

    def walk(rec, name):
        out.append((name, rec))
        k = 0
        for f in rec.fields:
            if f.inline is not None:
                k += 1
                walk(f.inline, "%s__bindgen_ty_%d" % (name, k))
    for r in model.records:
        walk(r, r.rust_name)
    return out


def spec_case(chk, i):
    rng = chk.rng("spec", i)
    model = G.Gen(rng, SPEC_CFG).generate()
    d = chk.dir("s%d" % (i % 48))
    hdr = write(os.path.join(d, "s%d.h" % i), model.header())
    rust_enums = rng.random() < 0.25
    # a random subset of the derive options (covering all 2^6 over the run) + the always-on ones
    onmask = rng.randrange(64)
    flags = [f for k, f in enumerate(ALL_DERIVES) if onmask >> k & 1]
    if "--with-derive-eq" in flags and "--with-derive-partialeq" not in flags:
        flags.append("--with-derive-partialeq")
    if "--with-derive-ord" in flags and "--with-derive-partialord" not in flags:
        flags.append("--with-derive-partialord")
    if "--with-derive-partialord" in flags and "--with-derive-partialeq" not in flags:
        flags.append("--with-derive-partialeq")
    if "--with-derive-ord" in flags and "--with-derive-eq" not in flags:
        flags += ["--with-derive-eq"]
    if rust_enums:
        flags += ["--default-enum-style", "rust"]
    no_pat = None
    if rng.random() < 0.25 and model.records:
        tr = rng.choice(["copy", "debug", "default", "hash", "partialeq"])
        no_pat = (tr, rng.choice(model.records).rust_name)
        flags += ["--no-" + tr, no_pat[1]]
    enabled = {"Copy", "Clone", "Debug"}
    # Debug switched off (--no-derive-debug), alone or together with --impl-debug (hand-written impls where a derive is impossible):
    # with the trait off, no type may get it in either form
    dbg_r = chk.rng("dbg", i).random()
    if dbg_r < 0.25:
        flags.append("--no-derive-debug")
        enabled.discard("Debug")
    if 0.15 < dbg_r < 0.45:
        flags.append("--impl-debug")
    pe_r = chk.rng("pe", i).random()
    if pe_r < 0.25 and "--with-derive-partialeq" not in flags:
        flags.append("--impl-partialeq")      # without --with-derive-partialeq the option must stay without effect
    for fl, tr in (("--with-derive-default", "Default"), ("--with-derive-hash", "Hash"), ("--with-derive-partialeq", "PartialEq"), ("--with-derive-eq", "Eq"),
                   ("--with-derive-ord", "Ord"), ("--with-derive-partialord", "PartialOrd")):
        if fl in flags:
            enabled.add(tr)
    b = os.path.join(d, "b%d.rs" % i)
    rc, so, se, _ = sh([build.BINDGEN, hdr] + flags + ["--no-layout-tests", "-o", b], timeout=120, cpu=100)
    name = "spec-%d" % i
    if rc != 0:
        return Verdict(INCONCLUSIVE, name, "bindgen failed " + se[-200:])
    inv = htypes.inventory(b)
    if "error" in inv:
        return Verdict(INCONCLUSIVE, name, "parse")
    text = open(b).read()
    items = {it["name"]: it for it in inv["items"] if it["kind"] in ("struct", "union")}
    manual = {}
    for it in inv["items"]:
        if it["kind"] == "impl" and it.get("trait"):
            manual.setdefault(it["self_ty"].replace(" ", ""), set()).add(it["trait"].split("::")[-1].strip())
    memo = {}
    withheld, extra = [], []
    obs = {"headers": 1, "types_checked": 0, "type_trait_pairs": 0, "maximality_compiles": 0, "derive_mask.%d" % bin(onmask).count("1"): 1}
    excluded_types = set()
    if no_pat:
        excluded_types.add(no_pat[1])
    for rname, rec in all_records(model):
        it = items.get(rname)
        if it is None:
            continue
        got = set(it.get("derives", [])) & set(NINE)
        want = spec_derives(rec, memo, rust_enums) & enabled
        # a user exclusion (--no-<trait> T) removes the trait from T and from everything that contains T by value
        if no_pat:
            tr = {"copy": "Copy", "debug": "Debug", "default": "Default", "hash": "Hash", "partialeq": "PartialEq"}[no_pat[0]]
            if rname == no_pat[1] or contains_named(rec, no_pat[1]):
                want -= {tr}
                if tr == "Copy":
                    want -= {"Clone"} if False else set()
                if tr == "PartialEq":
                    want -= {"Eq", "PartialOrd", "Ord"}
                if tr == "Copy":
                    continue     # loss of Copy changes union representation and more: outside this specification
        obs["types_checked"] += 1
        obs["type_trait_pairs"] += len(enabled)
        for t in sorted(want - got):
            if t == "Default" and "Default" in manual.get(rname, set()):
                continue
            if t in manual.get(rname, set()):
                continue
            withheld.append((rname, t))
        for t in sorted(got - want):
            extra.append((rname, t))
    files = {"header.h": model.header(), "flags.txt": " ".join(flags), "bindings.rs": text}
    problems, notes = [], []
    # rustc concurrence for withheld derives: add them bottom-up to a copy and compile
    if withheld:
        patched = text
        for rname, t in withheld:
            patched = re.sub(r"(pub (?:struct|union) %s\b)" % re.escape(rname), "#[derive(%s)]\n\\1" % t, patched, count=1)
        w = write(os.path.join(d, "max%d.rs" % i), "#![allow(warnings)]\n" + patched)
        rcr, sor, ser, _ = sh(["rustc", "--edition", "2021", "--crate-type", "lib", "--emit=metadata", "-o", os.path.join(d, "max%d.rmeta" % i), w], timeout=120)
        obs["maximality_compiles"] += 1
        if rcr == 0:
            problems.append("traits withheld although the documented rules allow them and rustc accepts them when added: %s" % withheld[:8])
        else:
            notes.append("spec-only disagreement (rustc rejects the added derive): %s" % withheld[:4])
    hard = []
    disabled_impls = sorted((rn, t) for rn, ts in manual.items() for t in ts if t in NINE and t not in enabled and rn in dict(all_records(model)))
    if disabled_impls:
        problems.append("hand-written impls of traits that are switched off by the options: %s" % disabled_impls[:6])
    disabled_derives = sorted((rn, t) for rn, t in extra if t not in enabled)
    if disabled_derives:
        problems.append("derives of traits that are switched off by the options: %s" % disabled_derives[:6])
    for rname, t in extra:
        rec = dict(all_records(model)).get(rname)
        if rec is not None and facts(rec, memo)["fnptr_many"] and t in ("Debug", "Hash", "PartialEq", "Eq", "PartialOrd", "Ord"):
            hard.append((rname, t))
    if hard:
        problems.append("traits derived although a constituent cannot support them by the documented rules (function pointer with more than "
                        "12 parameters): %s" % hard[:6])
    elif extra:
        # derives beyond my specification are judged by rustc: a derive whose constituent does not implement the trait is rejected (E0277)
        w = write(os.path.join(d, "ext%d.rs" % i), "#![allow(warnings)]\n" + text)
        rcr, sor, ser, _ = sh(["rustc", "--edition", "2021", "--crate-type", "lib", "--emit=metadata", "-o", os.path.join(d, "ext%d.rmeta" % i), w], timeout=120)
        obs["extra_derive_compiles"] = 1
        bad_traits = set(re.findall(r"error\[E0277\]: the trait bound `[^`]*: (?:\w+::)*(\w+)` is not satisfied", ser))
        bad_traits |= set(re.findall(r"error\[E0277\]: `[^`]*` doesn't implement `(?:\w+::)*(\w+)`", ser))
        bad_traits |= set(re.findall(r"error\[E0277\]: can't compare `[^`]*`", ser) and ["PartialEq", "PartialOrd"])
        hit = [(rn, t) for rn, t in extra if t in bad_traits]
        if rcr != 0 and hit:
            problems.append("traits derived although a constituent does not implement them (rustc E0277 on the bindings as emitted): %s\n%s" % (
                hit[:6], "\n".join(re.findall(r"^error\[E0277\][^\n]*", ser, re.M)[:3])))
        else:
            notes.append("derives beyond my specification (rustc accepts them): %s" % extra[:4])
    if problems:
        return Verdict(VIOLATED, name, "\n".join(problems), files=files, obs=obs)
    if notes:
        chk.notes.append("%s: %s" % (name, "; ".join(notes)[:300]))
        obs["spec_only_disagreements"] = 1
    return Verdict(HELD, name, obs=obs, nontrivial=obs["types_checked"] >= 2, key=name,
                   sample={"flags": flags, "types": obs["types_checked"]} if i % 37 == 0 else None)


def contains_named(rec, name, depth=0):
    for f in rec.fields:
        if f.inline is not None:
            if contains_named(f.inline, name, depth + 1):
                return True
            continue
        t = G.resolve(f.ty) if f.ty is not None else None
        while isinstance(t, G.Array):
            t = G.resolve(t.elem)
        if isinstance(t, G.RecordRef) and (t.rec.rust_name == name or contains_named(t.rec, name, depth + 1)):
            return True
    return False


# ------------------------------------------------------------------------------------------------
# behaviour of hand-written impls (Default / PartialEq / Debug), native and under Miri
# ------------------------------------------------------------------------------------------------
def behaviour_program(model, view, bindings_path, inv, inspect_padding=True):
    out = [probes.RS_PRELUDE, 'include!("%s");' % bindings_path] + probes.scalar_impls(view)
    manual = {}
    derived = {}
    for it in inv["items"]:
        if it["kind"] == "impl" and it.get("trait"):
            manual.setdefault(it["self_ty"].replace(" ", ""), set()).add(it["trait"].split("::")[-1].strip())
        if it["kind"] in ("struct", "union"):
            derived[it["name"]] = set(it.get("derives", []))
    main = ["fn main() { unsafe {"]
    counts = {"default_checks": 0, "eq_pairs": 0, "debug_calls": 0}
    for rec in model.records:
        tn = rec.rust_name
        if tn not in view.types:
            continue
        lvs = [lf for lf in G.leaves(rec) if probes.usable(lf)]
        ok = []
        for lf in lvs:
            if lf.bits is not None:
                owner = view.owner_type(tn, lf.accessor_owner)
                nm = lf.rpath.split(".")[-1]
                if owner and ("set_" + nm) in view.impl_methods.get(owner, {}) and not lf.accessor_owner:
                    ok.append(lf)
            else:
                r, _ = view.resolve(tn, lf.rpath)
                if r:
                    ok.append(lf)
        has_default = "Default" in manual.get(tn, set()) or "Default" in derived.get(tn, set())
        has_eq = "PartialEq" in manual.get(tn, set()) or "PartialEq" in derived.get(tn, set())
        has_dbg = "Debug" in manual.get(tn, set()) or "Debug" in derived.get(tn, set())
        main.append("    {")
        main.append("      let mut ma = std::mem::MaybeUninit::<%s>::uninit(); std::ptr::write_bytes(ma.as_mut_ptr() as *mut u8, 0, std::mem::size_of::<%s>());" % (tn, tn))
        main.append("      let pa = ma.as_mut_ptr();")
        for lf in ok:
            h = probes.hval(tn, lf.cpath, 0)
            sc = probes.leaf_scalar(lf)
            v, step = (probes.enum_value(lf, h), "false") if sc.kind == "enum" else (h, "true")
            if lf.bits is None:
                main.append("      vf_store(addr_of_mut!((*pa).%s), %d, %s);" % (lf.rpath, v, step))
            else:
                main.append("      (*pa).set_%s(vf_mk(%d));" % (lf.rpath, v))
        if "Default" in manual.get(tn, set()):
            # member-wise: every reachable member of the default object is zero (padding cannot be observed after a typed move)
            counts["default_checks"] += 1
            main.append("      let dflt = <%s as Default>::default(); let pd: *const %s = &dflt;" % (tn, tn))
            for lf in ok:
                if lf.bits is None:
                    main.append('      println!("DEFAULT %s %s {}", vf_show(addr_of!((*pd).%s)));' % (tn, lf.cpath, lf.rpath))
                else:
                    main.append('      println!("DEFAULT %s %s {}", vf_showv((*pd).%s()));' % (tn, lf.cpath, lf.rpath))
        if has_eq:
            main.append("      let a: &%s = &*pa;" % tn)
            main.append("      let mut mb = std::mem::MaybeUninit::<%s>::uninit(); std::ptr::copy_nonoverlapping(pa as *const u8, mb.as_mut_ptr() as *mut u8, std::mem::size_of::<%s>());" % (tn, tn))
            main.append("      let pb = mb.as_mut_ptr();")
            main.append('      println!("EQ %s same {}", *a == *pb);' % tn)
            counts["eq_pairs"] += 1
            for lf in ok[:24]:
                sc = probes.leaf_scalar(lf)
                if sc.kind in ("float",):
                    continue
                h = probes.hval(tn, lf.cpath, 0)
                if sc.kind == "enum":
                    e = sc.enum
                    alts = [vv for _, vv in e.enumerators if vv != probes.enum_value(lf, h)]
                    if lf.bits is not None:
                        alts = []
                    if not alts:
                        continue
                    v2, step = alts[0], "false"
                elif sc.kind == "bool":
                    v2, step = (h & 1) ^ 1, "false"
                else:
                    v2, step = h ^ 1, "false" if not lf.dims else "true"
                    if lf.dims:
                        v2 = h + 1
                if lf.bits is None:
                    main.append("      vf_store(addr_of_mut!((*pb).%s), %d, %s);" % (lf.rpath, v2, "true" if lf.dims else "false"))
                    main.append('      println!("EQ %s diff:%s {}", *a == *pb);' % (tn, lf.cpath))
                    hv, st = (probes.enum_value(lf, h), "false") if sc.kind == "enum" else (h, "true")
                    main.append("      vf_store(addr_of_mut!((*pb).%s), %d, %s);" % (lf.rpath, hv, st))
                else:
                    main.append("      (*pb).set_%s(vf_mk(%d));" % (lf.rpath, v2))
                    main.append('      println!("EQ %s diff:%s {}", *a == *pb);' % (tn, lf.cpath))
                    main.append("      (*pb).set_%s(vf_mk(%d));" % (lf.rpath, h))
                counts["eq_pairs"] += 1
            main.append('      println!("EQ %s restored {}", *a == *pb);' % tn)
        if has_dbg:
            counts["debug_calls"] += 1
            main.append('      let s = format!("{:?}", &*pa); println!("DEBUG %s {}", s.len());' % tn)
        main.append("    }")
    main.append("} }")
    return "\n".join(out + main) + "\n", counts


def beh_case(chk, i, use_miri=False):
    rng = chk.rng("beh", i)
    model = G.Gen(rng, BEH_CFG).generate()
    d = chk.dir("b%d" % (i % 48))
    hdr = write(os.path.join(d, "b%d.h" % i), model.header())
    pr = __import__("vflib.optsets", fromlist=["x"]).model_predicates(model)
    flags = ["--with-derive-default", "--with-derive-partialeq", "--impl-partialeq", "--no-layout-tests"] + ([] if pr["packed"] else ["--impl-debug"])
    if rng.random() < 0.3:
        flags += ["--with-derive-hash", "--with-derive-eq"]
    b = os.path.join(d, "bb%d.rs" % i)
    rc, so, se, _ = sh([build.BINDGEN, hdr] + flags + ["-o", b], timeout=120, cpu=100)
    name = "behaviour-%d%s" % (i, "-miri" if use_miri else "")
    if rc != 0:
        return Verdict(INCONCLUSIVE, name, "bindgen failed")
    inv = htypes.inventory(b)
    if "error" in inv:
        return Verdict(INCONCLUSIVE, name, "parse")
    view = probes.RustView(inv)
    src, counts = behaviour_program(model, view, b, inv, inspect_padding=not use_miri)
    prs = write(os.path.join(d, "beh%d.rs" % i), src)
    files = {"header.h": model.header(), "flags.txt": " ".join(flags), "bindings.rs": open(b).read(), "program.rs": src}
    if use_miri:
        sysroot_rc, sysroot, _, _ = sh(["cargo", "+nightly", "miri", "setup", "--print-sysroot"], timeout=600, env={"CARGO_NET_OFFLINE": "true"})
        miri = os.path.expanduser("~/.rustup/toolchains/nightly-x86_64-unknown-linux-gnu/bin/miri")
        rc, so, se, _ = sh([miri, "--sysroot", sysroot.strip().splitlines()[-1], "--edition", "2021", "-A", "warnings", prs], timeout=900,
                           env={"MIRIFLAGS": ""})
        if rc != 0 and "Undefined Behavior" not in se and "error: unsupported" not in se and "panicked" not in se:
            return Verdict(INCONCLUSIVE, name, "miri could not run the program: " + se[-400:])
        if "Undefined Behavior" in se:
            m = re.search(r"error: Undefined Behavior: [^\n]*(?:\n[^\n]*){0,12}", se)
            inb = bool(re.search(r"--> \S*bb%d\.rs" % i, se))
            return Verdict(VIOLATED if inb else INCONCLUSIVE, name, "Miri: " + (m.group(0) if m else se[-600:]), files=files)
    else:
        exe = os.path.join(d, "beh%d" % i)
        rc, so2, se, _ = sh(["rustc"] + htypes.RUSTC_FLAGS + [prs, "-o", exe], timeout=300)
        if rc != 0:
            locs = re.findall(r"^error[^\n]*\n\s*--> (\S+?):\d+:\d+", se, re.M)
            if any(l.endswith("/bb%d.rs" % i) for l in locs):
                return Verdict(INCONCLUSIVE, name, "bindings do not compile (C01's): " + se[:300])
            return Verdict(INCONCLUSIVE, name, "program does not compile (harness): " + se[:500])
        rc, so, se, _ = sh([exe], timeout=60)
    problems = []
    if rc != 0:
        in_unit = "__BindgenBitfieldUnit" in se
        mloc = re.search(r"panicked at \S*bb%d\.rs:(\d+):" % i, se)
        if mloc and not in_unit:
            # without a backtrace (Miri) only the location is printed: is it inside `impl __BindgenBitfieldUnit`?
            blines = open(b).read().splitlines()
            ln = min(int(mloc.group(1)), len(blines)) - 1
            while ln >= 0 and not re.match(r"^(impl|pub struct|pub union|pub fn|unsafe extern|const _)", blines[ln]):
                ln -= 1
            in_unit = ln >= 0 and "__BindgenBitfieldUnit" in blines[ln]
        if "panicked" in se and in_unit and re.search(r"sh[lr]_overflow|shift (left|right) with overflow", se):
            return Verdict(HELD, name, obs={"cases_hitting_recorded_C03_span_over_64": 1})
        if "panicked" in se:
            problems.append("a generated impl panicked: " + se[-500:])
        else:
            return Verdict(INCONCLUSIVE, name, "program failed rc=%s %s" % (rc, se[-300:]))
    obs = dict(counts)
    obs["programs"] = 1
    obs["miri_programs"] = 1 if use_miri else 0
    for line in so.splitlines():
        p = line.split(" ")
        if p[0] == "DEFAULT":
            val = p[3] if len(p) > 3 else ""
            if val.strip("0,fdp") != "" and val not in ("0",):
                problems.append("hand-written Default of %s: member %s is %s, not zero" % (p[1], p[2], val[:80]))
        elif p[0] == "EQ":
            if p[2] in ("same", "restored") and p[3] != "true":
                problems.append("PartialEq of %s: two objects with identical members compare unequal (%s)" % (p[1], p[2]))
            elif p[2].startswith("diff:") and p[3] != "false":
                problems.append("PartialEq of %s ignores member %s" % (p[1], p[2][5:]))
    if problems:
        return Verdict(VIOLATED, name, "\n".join(problems[:10]), files=files, obs=obs)
    return Verdict(HELD, name, obs=obs, nontrivial=counts["eq_pairs"] + counts["default_checks"] + counts["debug_calls"] >= 2, key=name)


EXTRA_KINDS = """typedef float vf4 __attribute__((vector_size(16)));
typedef int vi2 __attribute__((vector_size(8)));
struct XK_complex { double _Complex dc; int tag; };
struct XK_complexf { float _Complex fc[2]; char c; };
struct XK_vector { vf4 v; int n; };
struct XK_vector2 { vi2 a; vi2 b[3]; };
struct XK_plain { int a; unsigned char b[4]; long c; };
struct XK_holder { struct XK_plain p; struct XK_vector v; struct XK_complex c; };
struct XK_fnptr { int (*cb)(int, char); void *p; };
struct XK_big { int big[40]; short s; };
union XK_union { int i; float f; };
struct XK_huser { union XK_union u; enum { XK_A, XK_B } e; };
"""


def norecursive_case(chk, i):
    """allowlisting every type explicitly without recursion selects the same items as the default: the derive lists must be the same
    (types the analysis treats as always available — builtins, complex, vectors, pointers — must not turn into 'blocklisted' members)"""
    rng = chk.rng("norec", i)
    model = G.Gen(rng, dict(SPEC_CFG, p_anon=0.0, p_inline_named=0.0, p_tagless_typedef=0.0, p_bitfield=0.05)).generate()
    d = chk.dir("nr%d" % (i % 32))
    text = model.header() + EXTRA_KINDS
    hdr = write(os.path.join(d, "nr%d.h" % i), text)
    onmask = rng.randrange(64)
    flags = [f for k, f in enumerate(ALL_DERIVES) if onmask >> k & 1]
    if "--with-derive-eq" in flags and "--with-derive-partialeq" not in flags:
        flags.append("--with-derive-partialeq")
    if "--with-derive-ord" in flags:
        flags = [f for f in flags if f != "--with-derive-ord"]       # (PartialOrd/Ord through __BindgenComplex is a recorded C01 finding)
    if "--with-derive-partialord" in flags:
        flags = [f for f in flags if f != "--with-derive-partialord"]
    name = "norecursive-%d" % i
    views = []
    # every NAMED type by name (not `.*`: unnamed type items such as `double _Complex` or a vector type have no name a user could list)
    names = sorted(set([r_.rust_name for r_ in model.records if r_.name or r_.typedef_name] + [e_.name for e_ in model.enums if e_.name] + [t_[0] for t_ in model.typedefs]
                       + re.findall(r"\b(XK_\w+|vf4|vi2)\b", EXTRA_KINDS)))
    pat = "|".join(re.escape(n_) for n_ in names)
    for tag, extra in (("default", []), ("norec", ["--no-recursive-allowlist", "--allowlist-type", pat, "--allowlist-function", ".*", "--allowlist-var", ".*"])):
        b = os.path.join(d, "b%d_%s.rs" % (i, tag))
        rc, so, se, _ = sh([build.BINDGEN, hdr] + flags + extra + ["--no-layout-tests", "-o", b], timeout=120, cpu=100)
        if rc != 0:
            return Verdict(INCONCLUSIVE, name, "bindgen failed " + se[-200:])
        inv = htypes.inventory(b)
        if "error" in inv:
            return Verdict(INCONCLUSIVE, name, "parse")
        v = {}
        for it in inv["items"]:
            if it["kind"] in ("struct", "union"):
                v[it["name"]] = sorted(set(it.get("derives", [])) & set(NINE))
        manual = {}
        for it in inv["items"]:
            if it["kind"] == "impl" and it.get("trait"):
                manual.setdefault(it["self_ty"].replace(" ", ""), set()).add(it["trait"].split("::")[-1].strip())
        views.append((v, manual, open(b).read()))
    (a, ma, ta), (b_, mb, tb) = views
    diffs = []
    for tname in sorted(set(a) & set(b_)):
        if a[tname] != b_[tname] or ma.get(tname, set()) != mb.get(tname, set()):
            diffs.append("%s: default %s+%s, all types allowlisted without recursion %s+%s" % (tname, a[tname], sorted(ma.get(tname, ())), b_[tname], sorted(mb.get(tname, ()))))
    missing = sorted(set(a) - set(b_))
    obs = {"norecursive_headers": 1, "norecursive_types_compared": len(set(a) & set(b_))}
    files = {"header.h": text, "flags.txt": " ".join(flags), "default.rs": ta, "norecursive.rs": tb}
    if diffs or missing:
        return Verdict(VIOLATED, name, ("derive lists differ:\n" + "\n".join(diffs[:8]) if diffs else "") + ("\ntypes missing although allowlisted by `.*`: %s" % missing[:8] if missing else ""),
                       files=files, obs=obs)
    return Verdict(HELD, name, obs=obs, nontrivial=obs["norecursive_types_compared"] >= 4, key=name)


ALIAS_TARGETS = ["unsigned int", "short", "long", "unsigned char", "double", "int %s[4]", "void *%s", "char %s[40]", "unsigned long long"]
NO_TRAITS = {"copy": "Copy", "debug": "Debug", "default": "Default", "hash": "Hash", "partialeq": "PartialEq"}


def alias_case(chk, i):
    """typedefs emitted as NEW TYPES (--default-alias-style new_type[_deref] / --new-type-alias): the wrapper is a type of its own, so a
    --no-<trait> pattern naming the ALIAS removes the trait from the wrapper (whatever the wrapped type derives), an alias nobody excluded
    keeps what the wrapped type has, and the bindings still compile (containers of the excluded wrapper lose the trait too)."""
    rng = chk.rng("alias", i)
    model = G.Gen(rng, dict(SPEC_CFG, p_anon=0.0, p_inline_named=0.0, p_tagless_typedef=0.0, p_bitfield=0.0)).generate()
    d = chk.dir("al%d" % (i % 32))
    named = [r_ for r_ in model.records if r_.name]
    lines, aliases = [], []          # aliases: (alias name, wrapped rust name or None)
    for k in range(rng.randint(3, 7)):
        an = "Al%d" % k
        if named and rng.random() < 0.45:
            r_ = rng.choice(named)
            lines.append("typedef %s %s %s;" % (r_.kw, r_.name, an))
            aliases.append((an, r_.rust_name))
        else:
            t_ = rng.choice(ALIAS_TARGETS)
            lines.append("typedef %s;" % (t_ % an if "%s" in t_ else "%s %s" % (t_, an)))
            aliases.append((an, None))
    lines.append("struct AlHolder { %s };" % " ".join("%s m%d;" % (an, k) for k, (an, _) in enumerate(aliases)))
    if rng.random() < 0.5:
        lines.append("typedef %s AlOfAl;" % aliases[0][0])            # a new type of a new type
        aliases.append(("AlOfAl", aliases[0][0]))
    text = model.header() + "\n".join(lines) + "\n"
    hdr = write(os.path.join(d, "al%d.h" % i), text)
    flags = list(ALL_DERIVES) + ["--with-derive-partialeq"]
    flags = sorted(set(flags) - {"--with-derive-ord", "--with-derive-partialord"} if rng.random() < 0.5 else set(flags))
    style = rng.choice(["new_type", "new_type_deref", "pattern"])
    flags += ["--new-type-alias", "Al.*"] if style == "pattern" else ["--default-alias-style", style]
    excluded = {}
    for an, _ in rng.sample(aliases, rng.randint(1, min(3, len(aliases)))):
        tr = rng.choice(sorted(NO_TRAITS))
        excluded[an] = tr
        flags += ["--no-" + tr, an]
    name = "alias-%d" % i
    b = os.path.join(d, "b%d.rs" % i)
    rc, so, se, _ = sh([build.BINDGEN, hdr] + flags + ["--no-layout-tests", "-o", b], timeout=120, cpu=100)
    if rc != 0:
        return Verdict(INCONCLUSIVE, name, "bindgen failed " + se[-200:])
    inv = htypes.inventory(b)
    if "error" in inv:
        return Verdict(INCONCLUSIVE, name, "parse")
    btext = open(b).read()
    files = {"header.h": text, "flags.txt": " ".join(flags), "bindings.rs": btext}
    items = {it["name"]: set(it.get("derives", [])) & set(NINE) for it in inv["items"] if it["kind"] in ("struct", "union")}
    obs = {"alias_headers": 1, "newtype_aliases_checked": 0, "excluded_aliases_checked": 0}
    problems = []
    for an, wrapped in aliases:
        if an not in items:
            continue
        obs["newtype_aliases_checked"] += 1
        tr = excluded.get(an)
        if tr:
            obs["excluded_aliases_checked"] += 1
            if NO_TRAITS[tr] in items[an]:
                problems.append("new type %s derives %s although --no-%s names it" % (an, NO_TRAITS[tr], tr))
        elif wrapped in items and not any(x in excluded for x in (wrapped,)):
            # nothing excludes the alias: it is no poorer than the struct it wraps (compared on the traits both could have)
            lost = items[wrapped] - items[an]
            if lost:
                problems.append("new type %s lacks %s that the wrapped %s derives" % (an, sorted(lost), wrapped))
    w = write(os.path.join(d, "al%d_lib.rs" % i), "#![allow(warnings)]\n" + btext)
    rcr, sor, ser, _ = sh(["rustc", "--edition", "2021", "--crate-type", "lib", "--emit=metadata", "-o", os.path.join(d, "al%d.rmeta" % i), w], timeout=120)
    if rcr != 0:
        if re.search(r"error\[E0(204|277|369|599)\]", ser):
            problems.append("a derive in the bindings is rejected by rustc: " + htypes.first_error(ser)[:500])
        else:
            return Verdict(INCONCLUSIVE, name, "bindings do not compile (C01's): " + htypes.first_error(ser)[:300], obs=obs)
    if problems:
        return Verdict(VIOLATED, name, "; ".join(problems[:6]), files=files, obs=obs)
    return Verdict(HELD, name, obs=obs, nontrivial=obs["excluded_aliases_checked"] >= 1 and obs["newtype_aliases_checked"] >= 2, key=name)


def run(chk):
    chk.map(lambda i: norecursive_case(chk, i), range(chk.pick(30, 300)), budget_s=chk.pick(200, 900))
    chk.map(lambda i: alias_case(chk, i), range(chk.pick(30, 300)), budget_s=chk.pick(200, 900))
    chk.map(lambda i: spec_case(chk, i), range(chk.pick(120, 1500)), budget_s=chk.pick(300, 2400))
    chk.map(lambda i: beh_case(chk, i), range(chk.pick(60, 600)), budget_s=chk.pick(300, 2400))
    chk.map(lambda i: beh_case(chk, i + 100000, use_miri=True), range(chk.pick(6, 60)), budget_s=chk.pick(300, 1800), jobs=8)
    return chk.finish(
        rule="(1) case = (generated plain-data C type graph: ints, floats, pointers, function pointers, arrays <= and > 32 elements, nested and "
             "inline records, unions, enums, bit-fields; random subset of the 2^6 derive options, optional rust enum style, optional --no-<trait> "
             "pattern): bindgen's derive lists are compared with a direct recursive specification of the documented rules (floats => no "
             "Eq/Ord/Hash; pointers, > 32-element arrays and Rust enums => no derived Default; unions and their containers => Copy/Clone only; "
             "user exclusions propagate to containers) and a withheld trait is a violation only if rustc also accepts the derive when it is "
             "added to a copy of the bindings. (2) case = generated graph with --impl-debug/--impl-partialeq/--with-derive-default: a Rust "
             "program fills objects member by member, then checks that every member of a hand-written Default is zero, that == "
             "is true for identical objects and false after changing exactly one member (each member and bit-field in turn), and that "
             "{:?} does not panic; a sample of the same programs runs under Miri. (3) typedefs emitted as new types with --no-<trait> patterns "
             "naming the alias: the wrapper lacks the excluded trait, an alias nobody excluded derives what the wrapped struct derives, rustc "
             "accepts every derive. Non-trivial = >= 2 types / checks.",
        assumptions=["my specification covers the plain-data subset only; disagreements that rustc does not confirm are listed as notes, never verdicts",
                     "derives beyond the specification are not judged (rustc accepting them is C01's oracle)"])
