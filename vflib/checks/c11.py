"""C11 — output is a pure function of inputs across processes, repeats and threads."""
import hashlib
import os
import shutil

from .. import build, corpus, drv, gen_funcs
from .. import gen_ctypes as G
from ..core import HELD, INCONCLUSIVE, VIOLATED, Verdict, write
from ..core import run as sh

LEVEL = "exploration"


def workload(chk):
    """[(name, flags incl. header and clang args)]"""
    d = chk.dir("wl")
    ents = corpus.entries()
    idx = list(range(len(ents)))
    chk.rng("corpus").shuffle(idx)
    items = []
    for i in idx[:chk.pick(110, len(ents))]:
        e = ents[i]
        items.append((os.path.basename(e[0]), corpus.cmdline(e)))
    for i in range(chk.pick(40, 200)):
        rng = chk.rng("gen", i)
        k = rng.choice(["c", "cxx", "types", "static", "abi", "fallback", "fwd", "objc"])
        if k == "objc":
            fl = objc_item(rng, d, "g%d" % i)
        elif k == "c":
            p = write(os.path.join(d, "g%d.h" % i), gen_funcs.gen_c(rng, rng.randint(10, 40))[0])
            fl = [p] + rng.choice([[], ["--merge-extern-blocks"], ["--sort-semantically"], ["--with-derive-hash", "--with-derive-eq"]])
        elif k == "cxx":
            p = write(os.path.join(d, "g%d.hpp" % i), gen_funcs.gen_cxx(rng, rng.randint(8, 20)))
            fl = [p, "--enable-cxx-namespaces"]
        elif k == "fwd":
            # types that are only ever forward-declared (never defined), several per namespace, reached through fields, references, arrays of
            # pointers and function signatures: their place in the output must not depend on addresses or hash order
            parts = []
            for nsk in range(rng.randint(1, 3)):
                undef = ["Fwd%d_%d_%d" % (i, nsk, q) for q in range(rng.randint(2, 6))]
                body = "".join("struct %s;\n" % u for u in undef if rng.random() < 0.5)
                for sk in range(rng.randint(1, 3)):
                    mem = []
                    for q, u in enumerate(rng.sample(undef, rng.randint(1, len(undef)))):
                        mem.append(rng.choice(["struct %s *p%d;", "struct %s &r%d;", "struct %s *a%d[3];", "struct %s **pp%d;"]) % (u, q))
                    body += "struct User%d_%d_%d { %s int z; };\n" % (i, nsk, sk, " ".join(mem))
                body += "struct %s *fwd_fn%d_%d(struct %s *a);\n" % (undef[0], i, nsk, undef[-1])
                parts.append("namespace fns%d_%d { %s %s }\n" % (i, nsk, body, ("namespace deep { struct %s; struct DeepUser%d { %s *d; struct Only%d_%d *o; }; }" % (undef[0], i, undef[0], i, nsk)) if rng.random() < 0.5 else ""))
            p = write(os.path.join(d, "g%d.hpp" % i), "".join(parts))
            fl = [p, "--enable-cxx-namespaces"] + rng.choice([[], ["--sort-semantically"], ["--with-derive-default"], ["--no-layout-tests"]])
        elif k == "fallback":
            # function-like macro wrappers need --clang-macro-fallback, which evaluates them through scratch files (a source file and a
            # precompiled header) next to the build: concurrent generations must not share them
            body = "#define WRAP%d(c) c ## U\n" % i + "".join("#define FB%d_%d WRAP%d(%d << %d)\n" % (i, j, i, rng.randint(1, 99), rng.randint(0, 8)) for j in range(rng.randint(2, 8)))
            p = write(os.path.join(d, "g%d.h" % i), body + "int fb%d(int);\n" % i)
            fl = [p, "--clang-macro-fallback"]
        elif k == "abi":
            # several kinds of extern block in one module (calling conventions, partial --override-abi, block attributes) under the merging /
            # sorting passes: whatever groups them must not depend on hash order
            from .. import hfuncs
            p = write(os.path.join(d, "g%d.h" % i), hfuncs.header(hfuncs.generate(rng)))
            fl = [p, "--merge-extern-blocks"] + rng.choice([[], ["--override-abi", "fn[0-9]*[13579]=C-unwind"], ["--sort-semantically"],
                                                             ["--override-abi", "fn[0-9]*[02468]=C-unwind", "--extern-fn-block-attrs", "#[allow(dead_code)]"],
                                                             ["--wasm-import-module-name", "env"],
                                                             # two overrides whose patterns overlap: which one wins may be arbitrary, but must be the
                                                             # same in every run
                                                             ["--override-abi", "fn[0-9]*[13579]=C-unwind", "--override-abi", "fn1.*=system", "--override-abi", "fn.*3=efiapi"],
                                                             ["--override-abi", "fn.*=C-unwind", "--override-abi", "fn[0-9]+=system", "--override-abi", "fn[0-9]*w?=win64",
                                                              "--override-abi", "f.*=efiapi", "--override-abi", ".*=C"]])
        elif k == "types":
            p = write(os.path.join(d, "g%d.h" % i), G.Gen(rng, dict(bf_in_union=False)).generate().header())
            fl = [p] + rng.choice([[], ["--impl-debug", "--with-derive-default"], ["--default-enum-style", "rust"],
                                   # the same kind of custom derive / attribute option several times, with patterns that overlap on the same types
                                   ["--with-derive-custom", "S.*=PartialOrd", "--with-derive-custom", ".*=Hash", "--with-derive-custom", "[SRU].*=Eq,PartialEq",
                                    "--with-attribute-custom", ".*=#[allow(dead_code)]", "--with-attribute-custom", "S.*=#[must_use]"],
                                   ["--with-derive-custom-struct", ".*=Default", "--with-derive-custom-struct", "S[0-9]=Hash,Ord", "--with-derive-custom-struct", "S.*=PartialOrd",
                                    "--with-attribute-custom-struct", "S.*=#[cfg(all())]", "--with-attribute-custom-struct", ".*=#[allow(unused)]",
                                    "--with-derive-custom-union", ".*=Debug2", "--with-derive-custom-union", "U.*=Zeroable"]])
        else:
            body = "".join("static inline int sf%d_%d(int a, long b) { return a + (int)b + %d; }\n" % (i, j, j) for j in range(rng.randint(1, 6)))
            p = write(os.path.join(d, "g%d.h" % i), body + gen_funcs.gen_c(rng, 6)[0])
            fl = [p, "--experimental", "--wrap-static-fns", "--wrap-static-fns-path", os.path.join(d, "g%d_wrap" % i)]
        items.append(("gen%d-%s" % (i, k), fl))
    items.append(("fixed-objc-protocols", objc_item(chk.rng("objc-fixed"), d, "fixed_objc", fixed=True)))
    # always present: overrides whose patterns overlap (which ABI wins must not vary), several kinds of extern block under merging
    fixed_hdr = write(os.path.join(d, "fixed_abi.h"), "".join("int evt_%d_cb(int);\nvoid plain_%d(void);\ntypedef void (*evt_%d_fp)(int);\n" % (j, j, j) for j in range(12)) +
                      "__attribute__((ms_abi)) int w0(int);\nint c0(int);\n__attribute__((ms_abi)) int w1(int);\nint c1(int);\nextern int gv0;\n")
    for j, ov in enumerate([["--override-abi", "evt_.*=C-unwind", "--override-abi", ".*_cb=system"],
                            ["--override-abi", ".*=C-unwind", "--override-abi", "evt_.*=system", "--override-abi", ".*_fp=efiapi", "--override-abi", "plain_.*=win64"],
                            ["--merge-extern-blocks", "--override-abi", "evt_[0-5].*=system", "--override-abi", "evt_.*_cb=C-unwind", "--sort-semantically"]]):
        items.append(("fixed-overlap-%d" % j, [fixed_hdr] + ov))
    return items


def objc_item(rng, d, stem, fixed=False):
    """Objective-C class hierarchies: protocols adopted at several levels (a subclass inherits the conformances of every ancestor), categories,
    class and instance methods, properties, generics-free. Only hashed (nothing here is compiled)."""
    nproto = 8 if fixed else rng.randint(3, 9)
    protos = ["Proto%s%d" % (stem.replace("_", ""), k) for k in range(nproto)]
    out = ["@protocol %s\n-(void)%s_m;\n+(int)%s_c:(int)x;\n@end\n" % (p_, p_.lower(), p_.lower()) for p_ in protos]
    classes = []
    for k in range(4 if fixed else rng.randint(2, 5)):
        cn = "Cls%s%d" % (stem.replace("_", ""), k)
        base = classes[-1] if classes and (fixed or rng.random() < 0.8) else None
        adopt = rng.sample(protos, 4 if fixed and k < 2 else rng.randint(0, min(5, nproto)))
        out.append("@interface %s%s%s\n-(int)m%d:(int)a with:(float)b;\n+(void)c%d;\n@property int p%d;\n@end\n" % (
            cn, " : " + base if base else "", " <%s>" % ", ".join(adopt) if adopt else "", k, k, k))
        if rng.random() < 0.4:
            out.append("@interface %s (Cat%d) <%s>\n-(void)cat%d;\n@end\n" % (cn, k, rng.choice(protos), k))
        classes.append(cn)
    p = write(os.path.join(d, stem + "_objc.h"), "".join(out))
    return [p] + rng.choice([[], ["--objc-extern-crate"], ["--generate", "types,functions,methods"]]) + ["--", "-x", "objective-c"]


def digest(b):
    return hashlib.sha256(b).hexdigest()[:20]


def processes(chk, item, nrep):
    name, flags = item
    d = chk.dir("p-" + name)
    seen = {}
    obs = {"process_runs": 0, "artefacts_hashed": 0}
    variants = []
    have_setarch = shutil.which("setarch") is not None
    for r in range(nrep):
        env = {}
        pre = []
        cwd = None
        mode = r % 5
        if mode == 1 and have_setarch:
            pre = ["setarch", "-R"]
        elif mode == 2:
            env = {"VF_PAD_%d" % k: "x" * (37 * k) for k in range(1, 9)}
        elif mode == 3:
            cwd = d
        variants.append((pre, env, cwd, mode))
    ref = None
    for r, (pre, env, cwd, mode) in enumerate(variants):
        out = os.path.join(d, "o%d.rs" % r)
        dep = os.path.join(d, "o.d")
        extra = ["--depfile", dep] if "--" not in flags else []
        if "--" in flags:
            i = flags.index("--")
            cmd = pre + [build.BINDGEN] + flags[:i] + ["--depfile", dep] + (["-o", os.path.join(d, "o.rs")]) + flags[i:]
        else:
            cmd = pre + [build.BINDGEN] + flags + ["--depfile", dep, "-o", os.path.join(d, "o.rs")]
        if mode == 4:
            # stdout to a pipe instead of -o (no depfile without -o)
            cmd = [c for c in cmd]
            j = cmd.index("-o")
            del cmd[j:j + 2]
            j = cmd.index("--depfile")
            del cmd[j:j + 2]
        for f in ("o.rs", "o.d"):
            try:
                os.unlink(os.path.join(d, f))
            except OSError:
                pass
        rc, so, se, _ = sh(cmd, env=env, cwd=cwd, timeout=180, cpu=150, text=False)
        obs["process_runs"] += 1
        if rc is None:
            return Verdict(INCONCLUSIVE, "proc-" + name, "watchdog")
        arte = {"rc": rc}
        if mode == 4:
            # (a failing run leaves no file in the -o modes and an empty stdout here: both mean "no bindings")
            arte["bindings"] = digest(so) if (rc == 0 or so) else None
        else:
            for key, f in (("bindings", "o.rs"), ("depfile", "o.d")):
                p = os.path.join(d, f)
                arte[key] = digest(open(p, "rb").read()) if os.path.exists(p) else None
            wrap = [a for a in flags if a.endswith("_wrap")]
            if wrap:
                wp = wrap[0] + ".c"
                arte["wrapper"] = digest(open(wp, "rb").read()) if os.path.exists(wp) else None
        if rc != 0:
            # a rejected input: only the exit status is compared (what a failing run leaves behind is C12's subject)
            arte = {"rc": rc}
        obs["artefacts_hashed"] += len(arte) - 1
        if ref is None:
            ref = arte
            continue
        for k, v in arte.items():
            if k in ref and ref[k] != v:
                return Verdict(VIOLATED, "proc-" + name,
                               "artefact `%s` differs between process run 0 and run %d (mode %d): %s vs %s" % (k, r, mode, ref[k], v),
                               files={"cmd.txt": " ".join(cmd)}, obs=obs)
            ref.setdefault(k, v)
    if ref and ref.get("rc") != 0:
        return Verdict(HELD, "proc-" + name, obs=obs)   # bindgen rejects it, consistently
    return Verdict(HELD, "proc-" + name, obs=obs, nontrivial=True, key="proc-" + name)


def jobs_for(items, record=True):
    return [{"flags": fl, "callbacks": "record" if record else None} for _, fl in items]


def references(chk, items):
    """fresh single-generation process per item -> (hash, callbacks_hash, ok)"""
    d = chk.dir("ref")

    def one(k):
        rc, res, err, _ = drv.drive({"mode": "jobs", "jobs": [jobs_for([items[k]])[0]]}, d, "ref%d" % k, timeout=300, cpu=200)
        if rc != 0 or not res:
            return k, None
        r = res["results"][0]
        return k, (r.get("ok"), r.get("hash"), r.get("callbacks_hash"), r.get("err_kind"))
    import concurrent.futures as cf
    out = {}
    with cf.ThreadPoolExecutor(16) as ex:
        for k, v in ex.map(one, range(len(items))):
            out[k] = v
    return out


def history(chk, items, refs, hi, length):
    rng = chk.rng("hist", hi)
    d = chk.dir("hist%d" % hi)
    pool = rng.sample(range(len(items)), min(len(items), rng.randint(2, 6)))
    order = [rng.choice(range(len(pool))) for _ in range(length)]
    jobs = jobs_for([items[k] for k in pool])
    rc, res, err, _ = drv.drive({"mode": "jobs", "jobs": jobs, "order": order}, d, "h", timeout=900, cpu=800)
    name = "history-%d" % hi
    if rc is None:
        return Verdict(INCONCLUSIVE, name, "watchdog")
    if rc != 0 or not res:
        return Verdict(VIOLATED, name, "driver process died (rc=%s) during a history of %d generations: %s" % (rc, length, err[-800:]),
                       files={"spec.json": open(os.path.join(d, "h.json")).read()})
    obs = {"in_process_generations": 0, "callback_sequences_compared": 0}
    for r in res["results"]:
        k = pool[r["job"]]
        ref = refs.get(k)
        obs["in_process_generations"] += 1
        if ref is None:
            continue
        got = (r.get("ok"), r.get("hash"), r.get("callbacks_hash"), r.get("err_kind"))
        obs["callback_sequences_compared"] += 1
        if got != ref:
            return Verdict(VIOLATED, name, "generation #%d of the history (%s) differs from a fresh process: %s vs %s; order=%s" % (
                r["pos"], items[k][0], got, ref, order), files={"spec.json": open(os.path.join(d, "h.json")).read()}, obs=obs)
    return Verdict(HELD, name, obs=obs, nontrivial=True, key=name,
                   sample={"history": [items[pool[o]][0] for o in order][:12]} if hi == 0 else None)


def threads(chk, items, refs, ti, nthreads, rounds, only=None):
    rng = chk.rng("thr", ti)
    d = chk.dir("thr%d" % ti)
    same = ti % 2 == 0
    cand = [k for k in range(len(items)) if only is None or only in items[k][0] or any(only in str(a) for a in items[k][1])]
    if not cand:
        return None
    pool = rng.sample(cand, 1 if same and ti % 4 == 0 else min(len(cand), rng.randint(2, 5)))
    jobs = jobs_for([items[k] for k in pool])
    rc, res, err, _ = drv.drive({"mode": "threads", "jobs": jobs, "threads": nthreads, "rounds": rounds}, d, "t", timeout=900, cpu=1500)
    name = "threads-%d" % ti
    if rc is None:
        return Verdict(INCONCLUSIVE, name, "watchdog (possible deadlock; wall-clock only)")
    if rc != 0 or not res:
        return Verdict(VIOLATED, name, "driver died (rc=%s) with %d concurrent generations: %s" % (rc, nthreads, err[-800:]),
                       files={"spec.json": open(os.path.join(d, "t.json")).read()})
    obs = {"concurrent_generations": 0, "threads": nthreads}
    if res.get("threads_crashed"):
        return Verdict(VIOLATED, name, "%d generator threads panicked: %s" % (res["threads_crashed"], err[-600:]))
    for r in res["results"]:
        k = pool[r["job"]]
        ref = refs.get(k)
        obs["concurrent_generations"] += 1
        if ref is None:
            continue
        got = (r.get("ok"), r.get("hash"), r.get("callbacks_hash"), r.get("err_kind"))
        if got != ref:
            return Verdict(VIOLATED, name, "thread %d round %d (%s) differs from a fresh single generation: %s vs %s" % (
                r["thread"], r["round"], items[k][0], got, ref), files={"spec.json": open(os.path.join(d, "t.json")).read()}, obs=obs)
    return Verdict(HELD, name, obs=obs, nontrivial=True, key=name)


def run(chk):
    items = workload(chk)
    nrep = chk.pick(5, 12)
    chk.map(lambda it: processes(chk, it, nrep), items, budget_s=chk.pick(300, 1800))
    refs = references(chk, items)
    nbad = sum(1 for v in refs.values() if v is None)
    chk.count("reference_generations", len(refs) - nbad)
    chk.map(lambda hi: history(chk, items, refs, hi, chk.rng("hl", hi).randint(5, chk.pick(30, 50))),
            range(chk.pick(12, 100)), budget_s=chk.pick(300, 1500))
    chk.map(lambda ti: threads(chk, items, refs, ti, chk.pick(8, 16), chk.pick(2, 3)), range(chk.pick(8, 40)),
            jobs=2, budget_s=chk.pick(300, 1500))
    # groups made only of generations that use the macro-fallback scratch files
    chk.map(lambda ti: threads(chk, items, refs, 1000 + ti, chk.pick(8, 16), chk.pick(2, 3), only="clang-macro-fallback"), range(chk.pick(4, 16)),
            jobs=2, budget_s=chk.pick(200, 900))
    return chk.finish(
        rule="cases: (a) one per header: N separate CLI processes under varied ASLR (setarch -R), environment size, HOME, cwd and "
             "stdout-vs-file, hashing bindings, depfile and wrapper C file; (b) one per in-process history of 5..50 generations in "
             "random order over 2..6 headers; (c) one per barrier-started group of 8/16 threads generating concurrently; all "
             "compared with a fresh single-generation process incl. the recorded callback notification sequence; non-trivial = "
             "bindgen accepted the header",
        assumptions=["hash seeds and ASLR vary per process on their own; no hasher randomisation is injected (would create executions "
                     "production cannot have)", "deadlock is observed only through a wall-clock watchdog (inconclusive, never a verdict)"])
