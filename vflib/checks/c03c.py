"""C03 part (c): bit-fields inside C++ class templates (clang reports no field offsets for templates, so bindgen computes the
allocation units itself).  A C++ program instantiates the template, stores value vectors field by field and dumps the object's bytes
and the values it reads back; a Rust program does the same through the generated accessors of `R<c_int>`; the transcripts must agree."""
import os
import re

from .. import build
from ..core import HELD, INCONCLUSIVE, VIOLATED, Verdict, write
from ..core import run as sh
from ..htypes import RUSTC_FLAGS, inventory

BASES = [("unsigned int", 32, False), ("int", 32, True), ("unsigned char", 8, False), ("signed char", 8, True), ("unsigned short", 16, False),
         ("short", 16, True), ("unsigned long long", 64, False), ("long long", 64, True), ("bool", 1, False), ("unsigned long", 64, False)]


def gen(rng, uniform=True):
    """list of members: ("bf", name, ctype, bits, signed, width) | ("sep", ctype) | ("plain", name, ctype) | ("dep", name, decl)
    uniform: all bit-fields of the record have base types of one size and there are no zero-width separators — the shapes for which
    bindgen's own unit computation (no clang offsets inside templates) agrees with the Itanium layout on the unchanged tree; mixed shapes
    are a recorded finding with its own reproducer."""
    ms = []
    bases = BASES
    if uniform:
        size = rng.choice([8, 16, 32, 32, 64])
        bases = [b for b in BASES if b[1] == size]
        if rng.random() < 0.7:
            bases = [b for b in bases if not b[2]] or bases
    if uniform:
        # an 8-aligned first member gives the record its alignment (bindgen gives a template's bit-field unit no alignment of its own)
        ms.append(("dep", "owner", rng.choice(["T *owner;", "T *owner[2];"])))
    elif rng.random() < 0.6:
        ms.append(("dep", "owner", rng.choice(["T *owner;", "T owner;", "T *owner[2];"])))
    n = rng.randint(1, 10)
    nb = 0
    for j in range(n):
        r = rng.random()
        if r < 0.08 and nb and not uniform:
            ms.append(("sep", rng.choice(bases)[0]))
            continue
        if r < 0.2:
            ms.append(("plain", "p%d" % j, "long" if uniform else rng.choice(["int", "char", "short", "long"])))
            continue
        c, bits, signed = rng.choice(bases)
        mode = rng.random()
        if mode < 0.25:
            # fill exactly the rest of the current unit of this type where possible
            used = 0
            for m in reversed(ms):
                if m[0] != "bf":
                    break
                used += m[5]
            rest = bits - (used % bits)
            w = rest if 0 < rest <= bits else rng.randint(1, bits)
        elif mode < 0.4:
            w = bits
        else:
            w = rng.randint(1, bits)
        ms.append(("bf", "b%d" % j, c, bits, signed, w))
        nb += 1
    if nb == 0:
        ms.append(("bf", "b_only", "unsigned int", 32, False, rng.randint(1, 32)))
    if rng.random() < 0.3:
        ms.append(("plain", "tail", "long" if uniform else rng.choice(["char", "int"])))
    return ms


def header(ms, packed):
    body = []
    for m in ms:
        if m[0] == "dep":
            body.append("  " + m[2])
        elif m[0] == "sep":
            body.append("  %s : 0;" % m[1])
        elif m[0] == "plain":
            body.append("  %s %s;" % (m[2], m[1]))
        else:
            body.append("  %s %s : %d;" % (m[2], m[1], m[5]))
    return "template <class T> struct %sR {\n%s\n};\n" % ("__attribute__((packed)) " if packed else "", "\n".join(body))


def vectors(rng, ms):
    bfs = [m for m in ms if m[0] == "bf"]
    vecs = []

    def lim(m):
        w, signed = m[5], m[4]
        if m[2] == "bool":
            return 0, 1
        return (-(1 << (w - 1)), (1 << (w - 1)) - 1) if signed else (0, (1 << w) - 1)
    k = len(bfs)
    if k <= 6:
        for mask in range(1 << k):
            vecs.append([lim(m)[(mask >> q) & 1] for q, m in enumerate(bfs)])
    else:
        for _ in range(48):
            vecs.append([lim(m)[rng.randint(0, 1)] for m in bfs])
    for _ in range(12):
        vecs.append([rng.randint(*lim(m)) for m in bfs])
    return bfs, vecs


def cpp_prog(ms, bfs, vecs, inst="R<int>"):
    out = ['#include <stdio.h>', '#include <string.h>', '#include "t.hpp"', "typedef %s RI;" % inst,
           "static void dump(const RI *r) { const unsigned char *p = (const unsigned char *)r; for (unsigned i = 0; i < sizeof(RI); i++) printf(\"%02x\", p[i]); printf(\"\\n\"); }",
           "int main() {", '  printf("SIZE %zu %zu\\n", sizeof(RI), alignof(RI));']
    for vi, vec in enumerate(vecs):
        for fill in (0x00, 0xFF):
            out.append("  { RI r; memset(&r, %d, sizeof r);" % fill)
            for m, v in zip(bfs, vec):
                lit = ("true" if v else "false") if m[2] == "bool" else ("(%s)%d%s" % (m[2], v, "LL" if m[4] else "ULL"))
                out.append("    r.%s = %s;" % (m[1], lit))
            out.append('    printf("V %d %d ");' % (vi, fill))
            out.append("    " + " ".join('printf("%s=%%lld ", (long long)r.%s);' % (m[1], m[1]) if m[4] or m[2] == "bool" else
                                        'printf("%s=%%llu ", (unsigned long long)r.%s);' % (m[1], m[1]) for m in bfs))
            # the non-bit-field bytes keep the fill pattern; dump everything
            out.append("    dump(&r); }")
    out.append("  return 0; }")
    return "\n".join(out) + "\n"


def rs_prog(bpath, ms, bfs, vecs, rname, via, generic=True):
    """via: 'set' (setters), 'raw' (raw setters through a pointer), 'ctor' (new_bitfield_N; fill 0 only, other bits are not preserved by design)"""
    out = ['#![allow(warnings)]', 'mod b { include!("%s"); }' % bpath, ("type RI = b::%s<::std::os::raw::c_int>;" if generic else "type RI = b::%s;") % rname,
           "fn dump(r: &RI) { let p = r as *const RI as *const u8; for i in 0..::std::mem::size_of::<RI>() { print!(\"{:02x}\", unsafe { *p.add(i) }); } println!(\"\"); }",
           "fn main() { unsafe {", '  println!("SIZE {} {}", ::std::mem::size_of::<RI>(), ::std::mem::align_of::<RI>());']
    for vi, vec in enumerate(vecs):
        for fill in (0x00, 0xFF):
            out.append("  { let mut r: RI = ::std::mem::zeroed(); ::std::ptr::write_bytes(&mut r as *mut RI as *mut u8, %d, ::std::mem::size_of::<RI>());" % fill)
            for m, v in zip(bfs, vec):
                lit = ("true" if v else "false") if m[2] == "bool" else "(%d%s) as _" % (v, "i64" if m[4] else "u64")
                if via == "raw":
                    out.append("    RI::set_%s_raw(&mut r, %s);" % (m[1], lit))
                else:
                    out.append("    r.set_%s(%s);" % (m[1], lit))
            out.append('    print!("V %d %d ");' % (vi, fill))
            for m in bfs:
                g = ("RI::%s_raw(&r)" % m[1]) if via == "raw" else ("r.%s()" % m[1])
                if m[2] == "bool":
                    out.append('    print!("%s={} ", %s as i64);' % (m[1], g))
                elif m[4]:
                    out.append('    print!("%s={} ", %s as i64);' % (m[1], g))
                else:
                    out.append('    print!("%s={} ", %s as u64);' % (m[1], g))
            out.append("    dump(&r); }")
    out.append("} }")
    return "\n".join(out) + "\n"


REPRO = [
    # bindgen computes the units of a template's bit-fields itself (clang reports no offsets there); for mixed base types, zero-width
    # separators, plain members in front of a run, or records without another aligned member the result deviates from the C++ layout
    ("tmpl-repro-mixed", [("bf", "b0", "bool", 1, False, 1), ("sep", "unsigned int"), ("bf", "b2", "unsigned int", 32, False, 14),
                          ("bf", "b3", "unsigned char", 8, False, 8), ("bf", "b4", "unsigned long long", 64, False, 38), ("plain", "tail", "int")]),
    ("tmpl-repro-unaligned-unit", [("bf", "b0", "unsigned long", 64, False, 46), ("bf", "b1", "unsigned long long", 64, False, 18)]),
    ("tmpl-repro-run-after-char", [("plain", "p0", "char"), ("bf", "b1", "unsigned int", 32, False, 32), ("bf", "b2", "unsigned int", 32, False, 30),
                                   ("plain", "p3", "long"), ("bf", "b4", "unsigned int", 32, False, 32)]),
]


def header_derived(rng, ms):
    """non-template C++ struct R with base classes (empty, small, 8-aligned, polymorphic) in front of its members and bit-field runs"""
    pool = [("Tag", "struct Tag {};"), ("Tag2", "struct Tag2 {};"), ("B1", "struct B1 { char x1; };"), ("B2", "struct B2 { short x2; char y2; };"),
            ("B8", "struct B8 { double d8; };"), ("BV", "struct BV { long lv; virtual void vf() {} };"), ("BB", "struct BB { unsigned bb0 : 3; unsigned bb1 : 7; };")]
    bases = rng.sample(pool, rng.randint(1, 3))
    if sum(1 for b in bases if b[0] == "BV") and bases[0][0] != "BV":
        bases = [b for b in bases if b[0] == "BV"] + [b for b in bases if b[0] != "BV"]      # keep the dynamic base first (recorded C02 finding otherwise)
    body = []
    for m in ms:
        if m[0] == "sep":
            body.append("  %s : 0;" % m[1])
        elif m[0] == "plain":
            body.append("  %s %s;" % (m[2], m[1]))
        elif m[0] == "bf":
            body.append("  %s %s : %d;" % (m[2], m[1], m[5]))
    return "\n".join(b[1] for b in bases) + "\nstruct R : %s {\n%s\n};\n" % (", ".join(b[0] for b in bases), "\n".join(body)), [b[0] for b in bases]


def case(chk, i, fixed=None, derived=False):
    rng = chk.rng("tmpl" if not derived else "derived", i)
    ms = gen(rng, uniform=not derived)
    if derived and rng.random() < 0.7:
        # mostly unsigned fields (getters of signed fields are a recorded finding and would dominate the counts)
        ms = [(m[0], m[1], m[2] if not m[4] else {"int": "unsigned int", "signed char": "unsigned char", "short": "unsigned short", "long long": "unsigned long long"}[m[2]], m[3], False, m[5])
              if m[0] == "bf" else m for m in ms]
    packed = rng.random() < 0.15
    if derived:
        ms = [m for m in ms if m[0] != "dep"]
        if ms and ms[0][0] == "bf" and rng.random() < 0.5:
            ms.insert(0, ("plain", "lead", rng.choice(["unsigned char", "char", "short"])))
        packed = False
    if fixed is not None:
        ms, packed = fixed[1], False
    # packed runs wider than 64 bits are the recorded unit-span-over-64 finding (C03 part a/b own it): keep them out of this family
    run_bits, worst = 0, 0
    for m in ms:
        run_bits = run_bits + m[5] if m[0] == "bf" else 0
        worst = max(worst, run_bits)
    if worst > 64:
        packed = False
    d = chk.dir("t%d" % (i % 32))
    for f in os.listdir(d):
        try:
            os.unlink(os.path.join(d, f))
        except OSError:
            pass
    name = ("tmpl-%d" % i if not derived else "derived-%d" % i) if fixed is None else fixed[0]
    if derived:
        text, base_names = header_derived(rng, ms)
    else:
        text = header(ms, packed)
    hdr = write(os.path.join(d, "t.hpp"), text)
    bfs, vecs = vectors(rng, ms)
    cpp = write(os.path.join(d, "p.cpp"), cpp_prog(ms, bfs, vecs, inst="R" if derived else "R<int>"))
    rc, so, se, _ = sh(["clang++", "-std=c++14", "-w", "-O0", cpp, "-o", os.path.join(d, "p"), "-I", d], timeout=120)
    if rc != 0:
        return Verdict(INCONCLUSIVE, name, "clang++ rejects the generated template: " + se[:400])
    rc, want, se, _ = sh([os.path.join(d, "p")], timeout=60)
    if rc != 0:
        return Verdict(INCONCLUSIVE, name, "C++ probe failed")
    b = os.path.join(d, "b.rs")
    flags = rng.choice([[], [], ["--no-layout-tests"], ["--with-derive-default"], ["--rust-target", "1.70"]])
    rc, so, se, _ = sh([build.BINDGEN, hdr] + flags + ["-o", b, "--", "-x", "c++", "-std=c++14"], timeout=120, cpu=100)
    files = {"t.hpp": text, "p.cpp": open(cpp).read(), "flags.txt": " ".join(flags), "want.txt": want[-6000:]}
    if rc != 0:
        return Verdict(INCONCLUSIVE, name, "bindgen failed: " + se[-300:])
    files["bindings.rs"] = open(b).read()
    btext = files["bindings.rs"]
    # every bit-field needs its accessors for the comparison; otherwise (opaque fallback etc.) the case is trivial
    missing = [m[1] for m in bfs if not re.search(r"fn set_%s\b" % m[1], btext)]
    obs = {"template_records": 1, "template_bitfields": len(bfs), "template_vectors": len(vecs) * 2, "template_objects_bytewise": 0, "template_values_compared": 0}
    if missing:
        return Verdict(HELD, name, obs={"template_records_without_accessors": 1})
    span_over_64 = False
    wl = want.splitlines()
    results = []
    for via in ("set", "raw"):
        if via == "raw" and "_raw(" not in btext:
            continue
        src = rs_prog(b, ms, bfs, vecs, "R", via, generic=bool(re.search(r"pub struct R\s*<", btext)))
        prs = write(os.path.join(d, "r_%s.rs" % via), src)
        exe = os.path.join(d, "r_%s" % via)
        rc, so, se, _ = sh(["rustc"] + RUSTC_FLAGS + [prs, "-o", exe], timeout=300)
        if rc != 0:
            locs = re.findall(r"^error[^\n]*\n\s*--> (\S+?):\d+:\d+", se, re.M)
            if any(l.endswith("/b.rs") for l in locs):
                results.append(("inconclusive", "bindings do not compile (C01's): " + se[:300], None))
            else:
                results.append(("inconclusive", "probe does not compile (harness): " + se[:600], None))
            continue
        rc, got, se, _ = sh([exe], timeout=60)
        files["got_%s.txt" % via] = got[-6000:]
        if rc != 0:
            results.append(("violation", "Rust probe (%s) crashed rc=%s: %s" % (via, rc, se[-300:]), None))
            continue
        gl = got.splitlines()
        if len(gl) != len(wl):
            results.append(("inconclusive", "transcripts differ in length", None))
            continue
        bad = []
        signed_only = True
        for a, c in zip(wl, gl):
            if a == c:
                if a.startswith("V "):
                    obs["template_objects_bytewise"] += 1
                    obs["template_values_compared"] += len(bfs)
                continue
            if a.startswith("SIZE"):
                bad.append("size/alignment of R<int>: C++ `%s`, Rust `%s`" % (a, c))
                signed_only = False
                continue
            pa, pc = a.split(), c.split()
            if pa[-1] != pc[-1]:
                signed_only = False
                bad.append("vector %s fill %s via %s: object bytes differ: C++ %s, Rust %s" % (pa[1], pa[2], via, pa[-1], pc[-1]))
            else:
                for x, y in zip(pa[3:-1], pc[3:-1]):
                    if x != y:
                        nm_ = x.split("=")[0]
                        m = [q for q in bfs if q[1] == nm_][0]
                        vx, vy = int(x.split("=")[1]), int(y.split("=")[1])
                        if not (m[4] and vx < 0 and vy == vx + (1 << m[5])):
                            signed_only = False
                        bad.append("vector %s via %s: getter %s returns %s, C++ reads %s" % (pa[1], via, nm_, vy, vx))
        if bad:
            results.append(("violation", "\n".join(bad[:5]), "c03.signed-getter-zero-extended" if signed_only else None))
        else:
            results.append(("held", "", None))
    kinds = [r[0] for r in results]
    if "violation" in kinds:
        v = [r for r in results if r[0] == "violation"]
        unknown = [r for r in v if r[2] is None]
        pick = (unknown or v)[0]
        sig = pick[2]
        if fixed is not None:
            sig = "c03.template-bitfield-own-layout"
        return Verdict(VIOLATED, name, pick[1][:1800], files=files, obs=obs, signature=sig)
    if "inconclusive" in kinds or not results:
        return Verdict(INCONCLUSIVE, name, ([r[1] for r in results if r[0] == "inconclusive"] or ["no accessor form available"])[0], obs=obs)
    return Verdict(HELD, name, obs=obs, nontrivial=True, key=name)


def run_c(chk):
    chk.map(lambda i: case(chk, i), range(chk.pick(24, 400)), budget_s=chk.pick(300, 1500))
    chk.map(lambda i: case(chk, i, derived=True), range(chk.pick(40, 500)), budget_s=chk.pick(300, 1500))
    chk.map(lambda t: case(chk, 10 ** 6 + t[0], fixed=t[1]), list(enumerate(REPRO)))
