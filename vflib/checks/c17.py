"""C17 — reported dependencies are exactly the files that were read."""
import os
import re

from .. import build, drv, gen_includes
from ..core import HELD, INCONCLUSIVE, VIOLATED, Verdict, write
from ..core import run as sh

LEVEL = "exploration"


def lex_depfile(text):
    """Ninja/clang-convention depfile lexer: returns (target, [prereqs])."""
    text = text.replace("\\\n", " ")
    toks, cur, i = [], "", 0
    target = None
    while i < len(text):
        c = text[i]
        if c == "\\" and i + 1 < len(text) and text[i + 1] in " \\#":
            cur += text[i + 1]
            i += 2
            continue
        if c == "$" and i + 1 < len(text) and text[i + 1] == "$":
            cur += "$"
            i += 2
            continue
        if c == ":" and target is None and (i + 1 == len(text) or text[i + 1] in " \n"):
            target = cur
            cur = ""
            i += 1
            continue
        if c in " \n\t":
            if cur:
                toks.append(cur)
                cur = ""
            i += 1
            continue
        cur += c
        i += 1
    if cur:
        toks.append(cur)
    return target, toks


def real(p, base=None):
    if base and not os.path.isabs(p):
        p = os.path.join(base, p)
    return os.path.realpath(p)


def case(chk, i):
    rng = chk.rng("dag", i)
    g = gen_includes.generate(rng, special_rate=rng.choice([0.0, 0.2, 0.5]))
    d = chk.dir("d%d" % i)
    for rel, text in g.files.items():
        write(os.path.join(d, rel), text)
    for sub in ("inc", "inc/sub", "sys", "quote dir", "q"):
        os.makedirs(os.path.join(d, sub), exist_ok=True)
    cargs = []
    for a in g.flags:
        cargs.append(os.path.join(d, a) if not a.startswith("-") else a)
    roots = [os.path.join(d, r) for r in g.roots]
    name = "dag-%d" % i
    via = rng.choice(["cli", "cli-rel", "lib", "lib-contents"]) if len(roots) == 1 else "lib"
    base = d
    if via == "cli-rel" and any("\\" in r_ for r_ in g.roots):
        via = "cli"
    if via == "cli-rel":
        # everything named relative to a working directory two levels below the tree: every path climbs through `..`
        base = os.path.join(d, "cwd_sub", "deeper")
        os.makedirs(base, exist_ok=True)
        cargs = [a if a.startswith("-") else os.path.relpath(a, base) for a in cargs]
        roots = [os.path.relpath(r_, base) for r_ in roots]
    depfile = os.path.join(d, "out.d")
    out_rs = os.path.join(d, "out.rs")
    target_name = out_rs
    files = {"files.txt": "\n\n".join("== %s\n%s" % kv for kv in sorted(g.files.items())), "roots.txt": "\n".join(g.roots), "cargs.txt": " ".join(cargs)}
    obs = {"dags": 1, "files_in_dag": len(g.files), "expected_read": len(g.expected), "expected_unread": len(g.not_read)}
    cb_files = None
    if via in ("cli", "cli-rel"):
        # all but the last header are passed the way the CLI does it: -include
        # what is generated has no bearing on what was read: restricted --generate lists, allowlists and blocklists leave the depfile alone
        gen_flags = rng.choice([[], [], ["--generate", "types"], ["--generate", "types,functions"], ["--generate", "functions"], ["--ignore-functions"],
                                ["--allowlist-type", "s1"], ["--blocklist-type", "s.*", "--blocklist-item", "e.*"], ["--generate", "vars"],
                                # a blocklisted / not allowlisted FILE is still read (its macros and types shape everything else)
                                ["--blocklist-file", ".*f[0-9]*[13579]\\.h"], ["--blocklist-file", ".*/sub/.*"], ["--blocklist-file", ".*"],
                                ["--allowlist-file", ".*f0\\.h"], ["--blocklist-file", ".*twin.*", "--blocklist-file", ".*spaces.*"]])
        obs["restricted_generation"] = int(bool(gen_flags))
        cmd = [build.BINDGEN, roots[-1], "--depfile", depfile, "-o", out_rs] + gen_flags + ["--"] + cargs
        for r in roots[:-1]:
            cmd += ["-include", r]
        rc, so, se, _ = sh(cmd, timeout=120, cpu=100, cwd=base)
        if rc != 0:
            return Verdict(INCONCLUSIVE, name, "bindgen rejected generated DAG: " + se[-400:])
        input_headers = [roots[-1]]
        # -include'd files are reported as includes? they are read, so they must be in the depfile
    else:
        target_name = rng.choice(["mod name with space", "plain_target", "t#x$y"])
        methods = [["depfile", target_name, depfile]]
        if via == "lib-contents":
            methods.append(["header_contents", os.path.join(d, "virtual_input.h"), '#include "%s"\n' % os.path.basename(g.roots[0]) if not os.path.dirname(g.roots[0]) else '#include "%s"\n' % roots[0]])
            input_headers = []
        else:
            for r in roots:
                methods.append(["header", r])
            input_headers = list(roots)
        for a in cargs:
            methods.append(["clang_arg", a])
        rc, res, se, _ = drv.drive({"jobs": [{"methods": methods, "callbacks": "record", "callbacks_full": True, "out": out_rs}]}, d, "job", timeout=120, cpu=100)
        if rc != 0 or not res or not res["results"][0].get("ok"):
            return Verdict(INCONCLUSIVE, name, "driver/bindgen rejected generated DAG: %s %s" % (se[-300:], (res or {}).get("results", [{}])[0].get("err", "")[:300]))
        cbs = res["results"][0]["callbacks"]
        cb_files = [real(l.split(" ", 1)[1], d) for l in cbs if l.startswith(("header_file ", "include_file "))]
        obs["callback_notifications"] = len(cb_files)
    problems = []
    if not os.path.exists(depfile):
        return Verdict(VIOLATED, name, "no depfile written", files=files, obs=obs)
    dtext = open(depfile).read()
    files["out.d"] = dtext
    tgt, prereqs = lex_depfile(dtext)
    if tgt != target_name:
        problems.append("depfile target is %r, configured %r" % (tgt, target_name))
    got = set(real(p, base) for p in prereqs)
    raw_missing = [p for p in prereqs if not os.path.exists(p if os.path.isabs(p) else os.path.join(base, p))]
    if raw_missing and via != "lib-contents":
        problems.append("depfile lists paths that do not exist after unescaping: %s" % raw_missing[:3])
    expected = set(real(os.path.join(d, r)) for r in g.expected)
    unread = set(real(os.path.join(d, r)) for r in g.not_read)
    if via == "lib-contents":
        got = set(p for p in got if not p.endswith("virtual_input.h"))
    # clang -M as an independent witness of what is read
    mfile = os.path.join(d, "clang.d")
    ccmd = ["clang", "-M", "-MF", mfile, "-x", "c"]
    for r in roots[:-1]:
        ccmd += ["-include", r]
    ccmd += cargs + [roots[-1]]
    rcm, _, sem, _ = sh(ccmd, timeout=60, cwd=base)
    clangset = None
    if any("\\" in r for r in g.roots):
        rcm = 1     # clang -M rewrites backslashes in its own output; the model alone is the reference for such roots
        obs["clang_M_skipped_backslash_root"] = 1
    if rcm == 0 and os.path.exists(mfile):
        _, cp = lex_depfile(open(mfile).read())
        clangset = set(real(p, base) for p in cp)
        probed = set(real(os.path.join(d, r)) for r in g.probed)
        agree = expected <= clangset and (clangset - expected) <= probed
        obs["clang_M_agrees_with_model"] = 1 if agree else 0
        if not agree:
            return Verdict(INCONCLUSIVE, name, "generator model and clang -M disagree (harness): only-model %s only-clang %s" % (
                sorted(expected - clangset)[:3], sorted(clangset - expected)[:3]), obs=obs)
    miss = expected - got
    extra = got - expected
    obs["prerequisites_compared"] = len(got)
    if miss:
        problems.append("files that were read are missing from the depfile: %s" % sorted(miss)[:4])
    if extra & unread:
        problems.append("files that were NOT read (inactive #if / __has_include only) are in the depfile: %s" % sorted(extra & unread)[:4])
    elif extra:
        problems.append("depfile lists unexpected paths: %s" % sorted(extra)[:4])
    if cb_files is not None:
        cbset = set(cb_files)
        if via == "lib-contents":
            cbset = set(p for p in cbset if not p.endswith("virtual_input.h"))
        if cbset != got:
            problems.append("callback notifications and depfile disagree: only-callbacks %s only-depfile %s" % (sorted(cbset - got)[:3], sorted(got - cbset)[:3]))
        for h in input_headers:
            if real(h) not in cbset:
                problems.append("input header %s was not announced by header_file" % h)
    # GNU make as the consumer (names without backslash; the target is replaced by a plain name)
    mk_ok = not any("\\" in p for p in prereqs)
    if mk_ok and not problems:
        body = dtext.split(":", 1)[1] if tgt and ":" not in tgt and "#" not in tgt and "$" not in tgt and " " not in tgt else None
        # re-target: everything after the first unescaped "<target>:" -- recompute robustly
        m = re.match(r"^((?:\\.|[^:\\])*):", dtext)
        if m:
            body = dtext[m.end():]
            mk_target = "out.rs" if base == d else os.path.relpath(out_rs, base)
            mf = write(os.path.join(d, "Makefile"), "%s:%s\n\t@true\n" % (mk_target, body))
            allp = sorted(got)
            newest = max(os.path.getmtime(p) for p in allp) + 10
            write(out_rs, "x")
            os.utime(out_rs, (newest, newest))
            rcq, soq, seq, _ = sh(["make", "-q", "-f", mf, mk_target], cwd=base, timeout=60)
            obs["make_parses"] = 1
            if rcq != 0:
                problems.append("GNU make does not see the depfile's prerequisites as the existing files (make -q exit %s): %s" % (rcq, (soq + seq)[-300:]))
            else:
                for p in allp:
                    st = os.stat(p)
                    os.utime(p, (newest + 100, newest + 100))
                    rc1, so1, se1, _ = sh(["make", "-q", "-f", mf, mk_target], cwd=base, timeout=60)
                    os.utime(p, (st.st_atime, st.st_mtime))
                    obs["make_touch_tests"] = obs.get("make_touch_tests", 0) + 1
                    if rc1 != 1:
                        problems.append("touching %s does not make the target out of date for GNU make (exit %s)" % (p, rc1))
                        break
    special = any(re.search(r"[ #$\\]|[^\x00-\x7f]", r) for r in g.expected)
    if problems:
        return Verdict(VIOLATED, name, "\n".join(problems)[:2000], files=files, obs=obs)
    return Verdict(HELD, name, obs=obs, nontrivial=len(g.expected) >= 2, key=name,
                   sample={"roots": g.roots, "read": sorted(g.expected), "not_read": sorted(g.not_read), "via": via} if (special and i % 7 == 0) else None)


def forced_include_case(chk, k):
    """files pulled in by the user's own `-include` / `-imacros` clang arguments are read like any other: they belong in the depfile and in
    the callbacks (the inclusion directive sits in clang's <built-in> buffer, which the parser otherwise skips)"""
    d = chk.dir("forced%d" % k)
    os.makedirs(os.path.join(d, "inc"), exist_ok=True)
    write(os.path.join(d, "inc", "other.h"), "int other;\n")
    write(os.path.join(d, "inc", "viaforced.h"), "int via_forced;\n")
    write(os.path.join(d, "forced.h"), '#include "inc/viaforced.h"\nint forced;\n#define FROM_FORCED 1\n')
    write(os.path.join(d, "macros.h"), "#define FROM_IMACROS 2\n")
    write(os.path.join(d, "m.h"), '#include "inc/other.h"\nint main_decl;\n')
    form = [["-include", "forced.h"], ["-include", os.path.join(d, "forced.h")], ["-include", "forced.h", "-imacros", "macros.h"], ["--include=forced.h"],
            ["-includeforced.h"]][k]
    name = "forced-include-%d" % k
    depfile, out_rs = os.path.join(d, "out.d"), os.path.join(d, "out.rs")
    rc, so, se, _ = sh([build.BINDGEN, "m.h", "--depfile", depfile, "-o", out_rs, "--"] + form, timeout=120, cpu=100, cwd=d)
    if rc != 0:
        return Verdict(INCONCLUSIVE, name, "bindgen failed: " + se[-300:])
    btext = open(out_rs).read()
    if "forced" not in btext:
        return Verdict(INCONCLUSIVE, name, "the forced include had no effect on the bindings (form %s not understood by clang?)" % form)
    tgt, prereqs = lex_depfile(open(depfile).read())
    got = set(real(p, d) for p in prereqs)
    want = {real(os.path.join(d, x)) for x in ["m.h", "inc/other.h", "forced.h", "inc/viaforced.h"] + (["macros.h"] if "-imacros" in form else [])}
    files = {"out.d": open(depfile).read(), "cmd.txt": " ".join(["m.h", "--"] + form), "bindings.rs": btext}
    obs = {"forced_include_cases": 1, "prerequisites_compared": len(got)}
    if want - got:
        return Verdict(VIOLATED, name, "files read through %s are missing from the depfile: %s" % (form, sorted(os.path.relpath(x, real(d)) for x in want - got)),
                       files=files, obs=obs, signature="c17.forced-include-not-reported")
    if got - want:
        return Verdict(VIOLATED, name, "depfile lists unexpected paths: %s" % sorted(got - want), files=files, obs=obs)
    return Verdict(HELD, name, obs=obs, nontrivial=True, key=name)


def cargo_case(chk, i):
    """CargoCallbacks: one rerun-if-changed line per reported file, one rerun-if-env-changed per consulted variable."""
    rng = chk.rng("cargo", i)
    g = gen_includes.generate(rng, special_rate=0.2, n_roots=1)
    d = chk.dir("c%d" % i)
    for rel, text in g.files.items():
        write(os.path.join(d, rel), text)
    for sub in ("inc", "inc/sub", "sys", "quote dir", "q"):
        os.makedirs(os.path.join(d, sub), exist_ok=True)
    cargs = [os.path.join(d, a) if not a.startswith("-") else a for a in g.flags]
    root = os.path.join(d, g.roots[0])
    name = "cargo-%d" % i
    # which env vars are consulted (recorder) and which lines CargoCallbacks prints
    env_variants = [{}, {"TARGET": "x86_64-unknown-linux-gnu"}, {"TARGET": "aarch64-unknown-linux-gnu"}]
    problems, obs = [], {"cargo_runs": 0}
    for ev in env_variants:
        base = [["header", root]] + [["clang_arg", a] for a in cargs]
        env = dict(ev)
        rc, res, se, _ = drv.drive({"jobs": [{"methods": base, "callbacks": "record", "callbacks_full": True}]}, d, "rec", env=env, timeout=120, cpu=100)
        rc2, so2, se2, _ = sh([build.DRIVER, write(os.path.join(d, "cg.json"), __import__("json").dumps({"jobs": [{"methods": base, "callbacks": "cargo"}]}))], env=env, timeout=120, cpu=100)
        if rc != 0 or rc2 != 0 or not res or not res["results"][0].get("ok"):
            return Verdict(INCONCLUSIVE, name, "driver failed: %s %s" % (se[-200:], se2[-200:]))
        obs["cargo_runs"] += 1
        cbs = res["results"][0]["callbacks"]
        keys = [l.split(" ", 1)[1] for l in cbs if l.startswith("read_env_var ")]
        files_cb = [l.split(" ", 1)[1] for l in cbs if l.startswith(("header_file ", "include_file "))]
        lines = so2.splitlines()
        changed = [l[len("cargo:rerun-if-changed="):] for l in lines if l.startswith("cargo:rerun-if-changed=")]
        envl = [l[len("cargo:rerun-if-env-changed="):] for l in lines if l.startswith("cargo:rerun-if-env-changed=")]
        obs["rerun_lines"] = obs.get("rerun_lines", 0) + len(changed) + len(envl)
        if sorted(set(changed)) != sorted(set(files_cb)):
            problems.append("rerun-if-changed lines differ from the reported files: %s vs %s" % (sorted(set(changed))[:3], sorted(set(files_cb))[:3]))
        if len(changed) != len(set(changed)) and len(set(files_cb)) == len(files_cb):
            problems.append("a file has more than one rerun-if-changed line")
        if sorted(envl) != sorted(set(envl)):
            problems.append("an environment variable has more than one rerun-if-env-changed line: %s" % envl)
        if set(envl) != set(keys):
            problems.append("rerun-if-env-changed keys %s differ from the variables passed to read_env_var %s" % (sorted(envl), sorted(set(keys))))
        # a variable that changes the bindings must be announced
        tgt = ev.get("TARGET")
        cand = ["BINDGEN_EXTRA_CLANG_ARGS"] + (["BINDGEN_EXTRA_CLANG_ARGS_" + tgt, "BINDGEN_EXTRA_CLANG_ARGS_" + tgt.replace("-", "_")] if tgt else [])
        for var in cand:
            env2 = dict(ev)
            env2[var] = "-DVF_EXTRA_DEFINE=1"
            hdr2 = write(os.path.join(d, "envprobe.h"), "#ifdef VF_EXTRA_DEFINE\nint only_with_env;\n#endif\nint always;\n")
            rc3, res3, se3, _ = drv.drive({"jobs": [{"methods": [["header", hdr2]], "callbacks": "record", "callbacks_full": True, "out": os.path.join(d, "e.rs")}]}, d, "envp", env=env2, timeout=60, cpu=60)
            if rc3 != 0 or not res3:
                continue
            influenced = "only_with_env" in open(os.path.join(d, "e.rs")).read()
            keys3 = [l.split(" ", 1)[1] for l in res3["results"][0]["callbacks"] if l.startswith("read_env_var ")]
            obs["env_influence_probes"] = obs.get("env_influence_probes", 0) + 1
            if influenced and var not in keys3:
                problems.append("environment variable %s changes the bindings but is not announced through read_env_var" % var)
    if problems:
        return Verdict(VIOLATED, name, "\n".join(problems)[:1500], obs=obs)
    return Verdict(HELD, name, obs=obs, nontrivial=True, key=name)


def run(chk):
    chk.map(lambda k: forced_include_case(chk, k), range(5))
    chk.map(lambda i: case(chk, i), range(chk.pick(120, 1500)), budget_s=chk.pick(400, 2400))
    chk.map(lambda i: cargo_case(chk, i), range(chk.pick(12, 100)), budget_s=chk.pick(200, 900))
    return chk.finish(
        rule="case = one generated include DAG (depth <= 6, fan-out <= 5, diamonds, guards / #pragma once, repeated and computed includes, "
             "includes in #if 0 / #ifdef / true #if regions, __has_include, quoted and angle forms through -I/-isystem/-iquote, names with "
             "spaces, '#', '$', backslash, non-ASCII) generated through the CLI (--depfile) or the library (Builder::depfile with hostile "
             "target names, recorded header_file/include_file callbacks, header_contents); non-trivial = >= 2 files are read. Compared: "
             "depfile prerequisites (ninja/clang-convention lexer) == callback files == clang -M == generator model; GNU make -q touch test per "
             "prerequisite; CargoCallbacks lines vs reported files and read_env_var keys; env-influence probes.",
        assumptions=["depfile convention: '\\\\ ' '\\\\\\\\' '\\\\#' '$$' (clang -M / ninja / cargo); GNU make is exercised only for names without a backslash "
                     "(make does not unescape '\\\\\\\\')",
                     "cases where my include model and clang -M disagree are inconclusive (harness), never verdicts"])
