"""C06 — embedded layout assertions are complete and state the C compiler's numbers (also for non-host targets)."""
import os
import re

from .. import build, probes
from .. import gen_ctypes as G
from ..core import HELD, INCONCLUSIVE, VIOLATED, Verdict, write
from ..core import run as sh
from ..htypes import inventory

LEVEL = "exploration"
TARGETS = ["x86_64-unknown-linux-gnu", "i686-unknown-linux-gnu", "aarch64-unknown-linux-gnu", "armv7-unknown-linux-gnueabihf",
           "riscv64-unknown-linux-gnu", "x86_64-pc-windows-msvc", "i686-pc-windows-msvc", "wasm32-unknown-unknown"]
CFG = dict(portable=True, p_bitfield=0.15, bf_in_union=False, depth=2, p_packed=0.1, p_aligned=0.08, p_pragma=0.06, p_fam=0.05, n_records=(3, 7))


def direct_members(rec):
    """[(c_name, kind)] of the record's own members: 'field' | 'bitfield' | 'anon' | 'inline'"""
    out = []
    for f in rec.fields:
        if f.inline is not None:
            out.append((f.name, "anon" if f.name is None else "inline", f.inline))
        elif f.bits is not None:
            out.append((f.name, "bitfield", None))
        else:
            out.append((f.name, "field", None))
    return out


def expected_types(rec, rust_name, out):
    """rust type name -> (record, c expression for sizeof or None)"""
    out[rust_name] = rec
    k = 0
    for f in rec.fields:
        if f.inline is not None:
            k += 1
            expected_types(f.inline, "%s__bindgen_ty_%d" % (rust_name, k), out)
    return out


def clang_numbers(d, model, target, tag, lang_args):
    """{(type, kind, field): value} from an LLVM constant table compiled for `target`."""
    rows, keys = [], []
    for r in model.records:
        T = probes.c_type_name(r)
        keys.append((r.rust_name, "size", None))
        rows.append("sizeof(%s)" % T)
        keys.append((r.rust_name, "align", None))
        rows.append("_Alignof(%s)" % T)
        for name, kind, _ in direct_members(r):
            if kind in ("field", "inline"):
                t = None
                for f in r.fields:
                    if f.name == name and f.inline is None:
                        t = f.ty
                if isinstance(t, G.Array) and t.dims[-1] is None:
                    pass
                keys.append((r.rust_name, "offset", name))
                rows.append("__builtin_offsetof(%s, %s)" % (T, name))
    src = '#include "h.h"\nconst unsigned long long vf_tab[] = { %s };\n' % ", ".join("(unsigned long long)(%s)" % x for x in rows)
    p = write(os.path.join(d, "tab_%s.c" % tag), src)
    rc, so, se, _ = sh(["clang", "--target=" + target, "-ffreestanding", "-w", "-S", "-emit-llvm", "-o", "-", p, "-I", d] + lang_args, timeout=60)
    if rc != 0:
        return None, se
    m = re.search(r"@vf_tab = [^\[]*\[(\d+) x i64\] \[([^\]]*)\]", so)
    if not m:
        if "zeroinitializer" in so:
            return {k: 0 for k in keys}, ""
        return None, "table not found"
    vals = [int(x.split()[-1]) for x in m.group(2).split(",")]
    return dict(zip(keys, vals)), ""


def case(chk, i):
    rng = chk.rng("case", i)
    model = G.Gen(rng, CFG).generate()
    d = chk.dir("c%d" % (i % 48))
    hdr = write(os.path.join(d, "h.h"), model.header())
    out = []
    exp = {}
    for r in model.records:
        expected_types(r, r.rust_name, exp)
    ntargets = chk.pick(3, 8)
    targets = ["x86_64-unknown-linux-gnu"] + rng.sample(TARGETS[1:], ntargets - 1)
    for t in targets:
        nums, err = clang_numbers(d, model, t, t.split("-")[0], [])
        if nums is None:
            out.append(Verdict(INCONCLUSIVE, "c06-%d-%s" % (i, t), "clang table failed: " + err[-300:]))
            continue
        gate = rng.choice(["const", "test"])
        ns = rng.random() < 0.25
        flags = (["--rust-target", "1.76"] if gate == "test" else []) + (["--enable-cxx-namespaces"] if ns else [])
        cname = "c06-%d-%s-%s%s" % (i, t.split("-")[0] + ("-msvc" if "msvc" in t else ""), gate, "-ns" if ns else "")
        o = os.path.join(d, "on_%s.rs" % t)
        rc, so, se, _ = sh([build.BINDGEN, hdr] + flags + ["-o", o, "--", "--target=" + t, "-ffreestanding"], timeout=120, cpu=100)
        files = {"h.h": model.header(), "cmd.txt": " ".join(flags + ["--", "--target=" + t])}
        if rc != 0:
            out.append(Verdict(INCONCLUSIVE, cname, "bindgen failed for target: " + se[-300:]))
            continue
        inv = inventory(o)
        if "error" in inv:
            out.append(Verdict(VIOLATED, cname, "output does not parse: " + inv["error"], files=files))
            continue
        files["bindings.rs"] = open(o).read()
        structs = {it["name"]: it for it in inv["items"] if it["kind"] in ("struct", "union")}
        asr = {}
        for a in inv["assertions"]:
            asr.setdefault(a["ty"], {})[(a["kind"], a["field"])] = a["value"]
        problems = []
        obs = {"target_runs": 1, "assertions_seen": len(inv["assertions"]), "numbers_checked": 0, "completeness_checks": 0,
               "form." + gate: 1, "target." + t: 1}
        for rname, rec in exp.items():
            it = structs.get(rname)
            if it is None:
                continue      # not emitted under that name (model / naming mismatch is not this property's business)
            fields = [f["name"] for f in it["fields"]]
            opaque = any(f.startswith("_bindgen_opaque_blob") for f in fields)
            got = asr.get(rname, {})
            obs["completeness_checks"] += 1
            if ("size", None) not in got:
                problems.append("no size assertion for %s" % rname)
            if ("align", None) not in got:
                problems.append("no alignment assertion for %s" % rname)
            if not opaque:
                for name, kind, _ in direct_members(rec):
                    if kind in ("field", "inline") and name in fields:
                        obs["completeness_checks"] += 1
                        if ("offset", name) not in got:
                            problems.append("no offset assertion for %s::%s" % (rname, name))
            # correctness against clang for top-level records
            if rec in model.records:
                for (kind, field), v in got.items():
                    ref = nums.get((rname, kind, field))
                    if ref is None:
                        continue
                    obs["numbers_checked"] += 1
                    if v != ref:
                        problems.append("%s of %s%s: asserted %s, clang --target=%s says %s" % (kind, rname, "::" + field if field else "", v, t, ref))
        # off switch
        if t == targets[0]:
            off = os.path.join(d, "off.rs")
            rc2, so2, se2, _ = sh([build.BINDGEN, hdr] + flags + ["--no-layout-tests", "-o", off, "--", "--target=" + t, "-ffreestanding"], timeout=120, cpu=100)
            if rc2 == 0:
                inv2 = inventory(off)
                obs["off_switch_runs"] = 1
                if inv2.get("assertions"):
                    problems.append("--no-layout-tests still emits %d assertions" % len(inv2["assertions"]))
                a = [(x["module"], x["kind"], x["name"], x.get("tokens")) for x in inv["items"] if x["kind"] not in ("layout_assert", "layout_test")]
                b = [(x["module"], x["kind"], x["name"], x.get("tokens")) for x in inv2["items"] if x["kind"] not in ("layout_assert", "layout_test")]
                if a != b:
                    diff = [x for x in a if x not in b][:2] + [x for x in b if x not in a][:2]
                    problems.append("--no-layout-tests changes more than the assertions: %s" % str(diff)[:400])
        if problems:
            out.append(Verdict(VIOLATED, cname, "\n".join(problems[:12]), files=files, obs=obs))
        else:
            out.append(Verdict(HELD, cname, obs=obs, nontrivial=obs["numbers_checked"] >= 3, key=cname,
                               sample={"target": t, "form": gate, "assertions": len(inv["assertions"]), "numbers_checked": obs["numbers_checked"]} if i % 11 == 0 else None))
    return out


TPL = """template <typename T> struct W{n} {{ T v; {extra} }};
"""


def template_case(chk, i):
    rng = chk.rng("tpl", i)
    d = chk.dir("t%d" % (i % 16))
    scal = ["int", "char", "double", "long long", "short", "void *", "float", "bool"]
    src = ""
    uses = []
    body = []
    k = 0
    extras = ["", "char tail;", "T w[3];", "int *p;"]
    shape = rng.choice(["global", "global", "same-name-in-namespaces", "namespaced-arguments", "opaque-arguments"])
    oflags = []
    if shape == "global":
        for n in range(rng.randint(1, 3)):
            src += TPL.format(n=n, extra=rng.choice(extras))
        for n in range(src.count("template")):
            for a in rng.sample(scal, rng.randint(1, 3)):
                body.append("W%d<%s> f%d;" % (n, a, k))
                uses.append(("W%d<%s>" % (n, a), "f%d" % k))
                k += 1
    elif shape == "same-name-in-namespaces":
        # templates of the same name (different bodies) in different namespaces, instantiated with the same arguments: the instantiations
        # are distinct types whose generated names may coincide once the namespace path is left out
        nss = rng.sample(["small", "big", "outer::mid", "zz"], rng.randint(2, 3))
        ex = rng.sample(extras, len(nss))
        for ns_, e_ in zip(nss, ex):
            parts = ns_.split("::")
            src += "".join("namespace %s { " % p_ for p_ in parts) + TPL.format(n=0, extra=e_).strip() + " }" * len(parts) + "\n"
        for a in rng.sample(scal, rng.randint(1, 2)):
            for ns_ in nss:
                body.append("%s::W0<%s> f%d;" % (ns_, a, k))
                uses.append(("%s::W0<%s>" % (ns_, a), "f%d" % k))
                k += 1
    elif shape == "opaque-arguments":
        # instantiations whose ARGUMENT is an opaque type (by option, or because bindgen cannot represent it): the instantiation itself is an
        # ordinary generic struct and keeps its size / alignment assertions
        src += TPL.format(n=0, extra=rng.choice(extras))
        src += "struct Payload { int a; char b; };\nstruct Wide { long long x; char y; };\nstruct Odd { int a : 3; long long b : 61; };\nunion UPay { double d; char c[3]; };\n"
        for a in rng.sample(["Payload", "Wide", "Odd", "UPay", "Payload *"], rng.randint(2, 4)):
            body.append("W0<%s> f%d;" % (a, k))
            uses.append(("W0<%s>" % a, "f%d" % k))
            k += 1
        oflags = rng.choice([["--opaque-type", "Payload"], ["--opaque-type", "Payload", "--opaque-type", "Wide"], ["--opaque-type", "UPay"], []])
    else:
        # one template, arguments of the same name from different namespaces
        src += TPL.format(n=0, extra=rng.choice(extras))
        src += "namespace a { struct T { char c; }; }\nnamespace b { struct T { long long l; char c; }; }\nnamespace c { namespace a { struct T { short s[3]; }; } }\n"
        for a in ["a::T", "b::T", "c::a::T"][:rng.randint(2, 3)]:
            body.append("W0<%s> f%d;" % (a, k))
            uses.append(("W0<%s>" % a, "f%d" % k))
            k += 1
    src += "struct Holder { %s };\n" % " ".join(body)
    gate = rng.choice(["const", "test"])
    nsflag = rng.random() < 0.5
    hdr = write(os.path.join(d, "t%d.hpp" % i), src)
    t = rng.choice(TARGETS)
    tab = write(os.path.join(d, "tt%d.cpp" % i), '#include "t%d.hpp"\nextern "C" { extern const unsigned long long vf_tab[] = { %s }; }\n' % (
        i, ", ".join("sizeof(%s), alignof(%s)" % (u, u) for u, _ in uses)))
    rc, so, se, _ = sh(["clang++", "--target=" + t, "-ffreestanding", "-std=c++17", "-w", "-S", "-emit-llvm", "-o", "-", tab, "-I", d], timeout=60)
    m = re.search(r"@vf_tab = [^\[]*\[(\d+) x i64\] \[([^\]]*)\]", so)
    if rc != 0 or not m:
        return Verdict(INCONCLUSIVE, "c06-tpl-%d" % i, "clang table failed " + se[-200:])
    vals = [int(x.split()[-1]) for x in m.group(2).split(",")]
    o = os.path.join(d, "t%d.rs" % i)
    tflags = (["--rust-target", "1.76"] if gate == "test" else []) + (["--enable-cxx-namespaces"] if nsflag else []) + oflags
    rc, so, se, _ = sh([build.BINDGEN, hdr] + tflags + ["-o", o, "--", "--target=" + t, "-ffreestanding", "-std=c++17"], timeout=120, cpu=100)
    if rc != 0:
        return Verdict(INCONCLUSIVE, "c06-tpl-%d" % i, "bindgen failed " + se[-200:])
    inv = inventory(o)
    ts = [a for a in inv["assertions"] if a["kind"] in ("tsize", "talign")]
    problems = []
    sizes = sorted(a["value"] for a in ts if a["kind"] == "tsize")
    aligns = sorted(a["value"] for a in ts if a["kind"] == "talign")
    want_s = sorted(vals[0::2])
    want_a = sorted(vals[1::2])
    # one size and one alignment assertion per distinct instantiation that appears in a field
    distinct = sorted(set(u for u, _ in uses))
    if len(sizes) < len(distinct) or len(aligns) < len(distinct):
        problems.append("%d distinct instantiations appear in fields but only %d size / %d alignment assertions are emitted" % (len(distinct), len(sizes), len(aligns)))
    dv = {}
    for (u, _), s, a in zip(uses, vals[0::2], vals[1::2]):
        dv[u] = (s, a)
    if sorted(s for s, a in dv.values()) != sizes[:len(dv)] and len(sizes) == len(dv):
        problems.append("template instantiation sizes %s differ from clang's %s for %s" % (sizes, sorted(s for s, a in dv.values()), t))
    if sorted(a for s, a in dv.values()) != aligns[:len(dv)] and len(aligns) == len(dv):
        problems.append("template instantiation alignments %s differ from clang's %s for %s" % (aligns, sorted(a for s, a in dv.values()), t))
    if problems:
        return Verdict(VIOLATED, "c06-tpl-%d" % i, "\n".join(problems), files={"t.hpp": src, "bindings.rs": open(o).read(), "target": t, "flags.txt": " ".join(tflags)})
    return Verdict(HELD, "c06-tpl-%d" % i, obs={"template_instantiations_checked": len(dv), "target." + t: 1, "template_shape." + shape: 1, "template_gate." + gate: 1,
                                                 "template_namespaces_flag": int(nsflag)}, nontrivial=True, key="tpl-%d" % i)


HUGE = """struct Region { char pad[0x10000000]; int ctrl; int status; char mode; };
struct WideRegion { char bank0[0x20000000]; int bank1; char b2[0x10000000]; long tail; short after; };
struct Near { char pad[0x0FFFFFF0]; long long edge; char pad2[8]; int past; };
"""
HUGE_MEMBERS = [("Region", "pad"), ("Region", "ctrl"), ("Region", "status"), ("Region", "mode"), ("WideRegion", "bank0"), ("WideRegion", "bank1"),
                ("WideRegion", "b2"), ("WideRegion", "tail"), ("WideRegion", "after"), ("Near", "pad"), ("Near", "edge"), ("Near", "pad2"), ("Near", "past")]


def huge_case(chk, k):
    """members hundreds of MiB into a record (bit offsets beyond 2^31 / 2^32): every one keeps its offset assertion, with clang's number"""
    t = TARGETS[k % len(TARGETS)]
    gate = ["const", "test"][k % 2]
    d = chk.dir("huge%d" % k)
    hdr = write(os.path.join(d, "huge.h"), HUGE)
    name = "c06-huge-%s-%s" % (t, gate)
    tab = write(os.path.join(d, "tt.c"), '#include "huge.h"\n#include <stddef.h>\nconst unsigned long long vf_tab[] = { %s };\n' % ", ".join(
        "offsetof(struct %s, %s)" % m for m in HUGE_MEMBERS))
    rc, so, se, _ = sh(["clang", "--target=" + t, "-ffreestanding", "-w", "-S", "-emit-llvm", "-o", "-", tab, "-I", d], timeout=60)
    m = re.search(r"@vf_tab = [^\[]*\[(\d+) x i64\] \[([^\]]*)\]", so)
    if rc != 0 or not m:
        return Verdict(INCONCLUSIVE, name, "clang table failed " + se[-200:])
    vals = [int(x.split()[-1]) for x in m.group(2).split(",")]
    o = os.path.join(d, "huge.rs")
    rc, so, se, _ = sh([build.BINDGEN, hdr] + (["--rust-target", "1.76"] if gate == "test" else []) + ["-o", o, "--", "--target=" + t, "-ffreestanding"], timeout=120, cpu=100)
    if rc != 0:
        return Verdict(INCONCLUSIVE, name, "bindgen failed " + se[-200:])
    inv = inventory(o)
    offs = {(a["ty"], a["field"]): a["value"] for a in inv["assertions"] if a["kind"] == "offset"}
    problems = []
    for (ty, f), want in zip(HUGE_MEMBERS, vals):
        got = offs.get((ty, f))
        if got is None:
            problems.append("no offset assertion for %s::%s (C offset %d)" % (ty, f, want))
        elif got != want:
            problems.append("offset assertion of %s::%s says %d, clang says %d for %s" % (ty, f, got, want, t))
    if problems:
        return Verdict(VIOLATED, name, "\n".join(problems[:8]), files={"huge.h": HUGE, "bindings.rs": open(o).read(), "target": t})
    return Verdict(HELD, name, obs={"huge_offsets_checked": len(vals), "target." + t: 1}, nontrivial=True, key=name)


def run(chk):
    chk.map(lambda k: huge_case(chk, k), range(chk.pick(4, len(TARGETS) * 2)))
    chk.map(lambda i: case(chk, i), range(chk.pick(40, 300)), budget_s=chk.pick(400, 2400))
    chk.map(lambda i: template_case(chk, i), range(chk.pick(40, 300)), budget_s=chk.pick(200, 900))
    return chk.finish(
        rule="case = (generated C type graph, target, assertion form const|#[test], namespaces on/off) over 8 targets (x86_64/i686/aarch64/armv7/"
             "riscv64 linux, x86_64/i686 windows-msvc, wasm32; freestanding) plus C++ template instantiations used as fields; non-trivial = "
             ">= 3 asserted numbers were compared with clang's. Completeness is model-driven: every record the generator declared (incl. "
             "inline anonymous ones, by bindgen's naming scheme) that is emitted non-opaquely must have size + alignment + one offset "
             "assertion per named non-bit-field member; opaque ones size + alignment. Correctness: every asserted number of a top-level record "
             "equals the entry of a constant table compiled by `clang --target=T -S -emit-llvm`. Off switch: inventories with and without "
             "--no-layout-tests are identical apart from the assertion items.",
        assumptions=["clang --target=T defines the numbers for T; no Rust is compiled for non-host targets (host evaluation is C01/C02's)",
                     "numbers of inline anonymous records are checked for presence, not value (C cannot name them)"])
