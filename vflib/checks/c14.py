"""C14 — bindings use only features of the selected Rust target, monotonically."""
import os

from .. import build
from ..core import HELD, INCONCLUSIVE, VIOLATED, Verdict, write
from ..core import run as sh
from ..htypes import inventory

LEVEL = "exploration"

H_ABI = """int f_plain(int);
int f_thiscall(int);
int f_vectorcall(int);
int f_efiapi(int);
int f_cunwind(int);
extern int var_a;
extern const int var_c;
#define STR_M "hello"
const char *const str_v = "world";
struct fam { int n; int data[]; };
struct plain { int a; char b; };
unsigned long usez(void);
typedef int (*cb_efiapi)(int);
typedef void (*cb_cunwind)(void);
typedef int (*cb_thiscall)(int);
typedef int (*cb_vectorcall)(int);
struct cbs { int (*fld_efiapi)(int); void (*fld_cunwind)(int); cb_efiapi via_td; int (*fld_plain)(int); };
void takes_cb(int (*par_cunwind)(int), cb_thiscall p2);
"""
H_PLAIN = """int g_plain(int, char);
extern long gvar;
#define G_STR "abc"
struct gfam { short n; long data[]; };
struct gplain { int a; char b; double c; };
union gu { int i; float f; };
enum ge { GE_A, GE_B };
"""
FLAGS_ABI = ["--generate-cstr", "--use-core", "--flexarray-dst", "--override-abi", "f_thiscall=thiscall", "--override-abi",
             "f_vectorcall=vectorcall", "--override-abi", "f_efiapi=efiapi", "--override-abi", "f_cunwind=C-unwind",
             # the same overrides reaching function POINTER types through the name of their typedef / field / parameter
             "--override-abi", "cb_efiapi=efiapi", "--override-abi", "cb_cunwind=C-unwind", "--override-abi", "cb_thiscall=thiscall",
             "--override-abi", "cb_vectorcall=vectorcall", "--override-abi", "fld_efiapi=efiapi", "--override-abi", "fld_cunwind=C-unwind",
             "--override-abi", "par_cunwind=C-unwind"]
FLAGS_PLAIN = ["--generate-cstr", "--use-core"]

# Independent table of Rust release facts (https://doc.rust-lang.org/stable/releases.html)
EDITION_MIN = {"2018": 31, "2021": 56, "2024": 85}
GATES = {                      # census key -> first stable minor (None = nightly only)
    "unsafe_extern": 82, "offset_of": 77, "cstr_literals_textual": 77, "core_ffi_ctypes": 64,
    "cstr_from_bytes_unchecked": 59, "abi:efiapi": 68, "abi:C-unwind": 71, "abi:thiscall": 73,
    "abi:vectorcall": None, "ptr_from_raw_parts": None, "ptr_to_raw_parts": None, "layout_for_value_raw": None,
    "feature_attrs": None,
}
CAPS = {                       # capability -> census keys that realise it
    "strings-as-CStr": ["cstr_from_bytes_unchecked", "cstr_literals_textual"],
    "cstr-literals": ["cstr_literals_textual"], "offset_of": ["offset_of"], "unsafe-extern": ["unsafe_extern"],
    "core-ffi": ["core_ffi_ctypes"], "abi-efiapi": ["abi:efiapi"], "abi-C-unwind": ["abi:C-unwind"],
    "abi-thiscall": ["abi:thiscall"], "abi-vectorcall": ["abi:vectorcall"],
    "ptr-metadata": ["ptr_from_raw_parts", "ptr_to_raw_parts"], "layout-for-ptr": ["layout_for_value_raw"],
}
MINORS = list(range(51, 91))


H_VT = """struct VT_plain { virtual int a(int); virtual void b(); int x; };
struct VT_vec { virtual int __attribute__((vectorcall)) vc(int, float); int y; };
struct VT_ms { virtual int __attribute__((ms_abi)) w(int); virtual void plain(); };
struct VT_user { VT_plain *p; VT_vec *q; VT_ms *r; };
"""


def gen(d, header, flags, target, edition, tag):
    out = os.path.join(d, "o_%s.rs" % tag)
    fl = list(flags)
    cargs = []
    if "--" in fl:
        k_ = fl.index("--")
        fl, cargs = fl[:k_], fl[k_:]
    if target:
        fl += ["--rust-target", target]
    if edition:
        fl += ["--rust-edition", edition]
    rc, so, se, _ = sh([build.BINDGEN, header] + fl + ["-o", out] + cargs, timeout=60, cpu=60)
    return rc, out, se, fl + cargs


def run(chk):
    d = chk.dir("grid")
    headers = [("abi", write(os.path.join(d, "abi.h"), H_ABI), FLAGS_ABI), ("plain", write(os.path.join(d, "plain.h"), H_PLAIN), FLAGS_PLAIN)]
    # the same declarations met in another order: what is emitted for a target must not depend on which C type is converted first
    void_first = "int buf_len(const void *buf);\nvoid *vp_first;\n"
    headers.append(("plain-voidfirst", write(os.path.join(d, "plain_vf.h"), void_first + H_PLAIN), FLAGS_PLAIN))
    headers.append(("abi-voidfirst", write(os.path.join(d, "abi_vf.h"), void_first + H_ABI), FLAGS_ABI))
    # vtable structs carry one function pointer per virtual method: their ABI strings obey the same gates
    vt = write(os.path.join(d, "vt.hpp"), H_VT)
    headers.append(("vtable", vt, ["--vtable-generation", "--", "-x", "c++", "-std=c++14"]))
    headers.append(("vtable-win32", vt, ["--vtable-generation", "--use-core", "--", "-x", "c++", "-std=c++14", "--target=i686-pc-windows-msvc"]))
    headers.append(("plain-reversed", write(os.path.join(d, "plain_rev.h"), "\n".join(reversed(H_PLAIN.strip().split("\n"))) + "\n"), FLAGS_PLAIN))
    targets = [("1.%d" % m, m) for m in MINORS]
    for m in (51, 64, 77, 82, 85):
        targets += [("1.%d.3" % m, m), ("1.%d.0-beta" % m, m), ("1.%d.1-beta.2" % m, m), ("1.%d.0-nightly" % (m + 1), m)]
    targets.append(("nightly", None))
    editions = [None, "2018", "2021", "2024"]
    cells = [(hn, hp, hf, t, m, e) for (hn, hp, hf) in headers for (t, m) in targets for e in editions]
    results = {}

    def cell(c):
        hn, hp, hf, t, m, e = c
        tag = "%s_%s_%s" % (hn, t.replace(".", "_"), e)
        rc, out, se, fl = gen(d, hp, hf, t, e, tag)
        name = "%s@%s/%s" % (hn, t, e or "-")
        problems, obs = [], {"runs": 1}
        must_ok = True
        if e and m is not None and m < EDITION_MIN[e]:
            must_ok = False
        if not must_ok:
            obs["edition_rejections_expected"] = 1
            if rc == 0:
                problems.append("edition %s is newer than Rust %s yet bindgen produced bindings" % (e, t))
            else:
                if os.path.exists(out) and os.path.getsize(out) > 0:
                    problems.append("unsupported edition/target pair left output behind")
                if "edition" not in se:
                    problems.append("unsupported edition/target pair: error does not mention the edition: %s" % se[:200])
            results[(hn, t, e)] = None
        else:
            if rc != 0:
                problems.append("supported target/edition rejected (exit %s): %s" % (rc, se[:300]))
                results[(hn, t, e)] = None
            else:
                inv = inventory(out)
                if "error" in inv:
                    problems.append("output does not parse: " + inv["error"])
                    results[(hn, t, e)] = None
                else:
                    cen = inv["census"]
                    results[(hn, t, e)] = (cen, open(out).read())
                    eff_e = e
                    for key, first in GATES.items():
                        n = cen.get(key, 0)
                        if not n:
                            continue
                        obs["gated_constructs_seen"] = obs.get("gated_constructs_seen", 0) + n
                        if m is None:
                            continue
                        if first is None:
                            problems.append("nightly-only construct %s (%d) emitted for stable target %s" % (key, n, t))
                        elif m < first:
                            problems.append("construct %s (%d) needs Rust 1.%d but target is %s" % (key, n, first, t))
                    if cen.get("cstr_literals_textual") and e == "2018":
                        problems.append("C-string literals need edition 2021 but edition 2018 was requested")
        files = {"cmd.txt": " ".join(fl)}
        if os.path.exists(out):
            files["out.rs"] = open(out).read()
        if problems:
            return Verdict(VIOLATED, name, "\n".join(problems), files=files, obs=obs)
        return Verdict(HELD, name, obs=obs, nontrivial=True, key=name,
                       sample={"cell": name, "census": results[(hn, t, e)][0] if results.get((hn, t, e)) else "rejected (expected)"}
                       if t in ("1.76", "1.77") and hn == "abi" and e is None else None)
    chk.map(cell, cells)

    # monotonicity over capabilities, per header and edition, along the minor axis then nightly
    def caps(cen):
        return {c for c, keys in CAPS.items() if any(cen.get(k, 0) for k in keys)}
    for hn, hp, hf in headers:
        for e in editions:
            prev, prev_t = None, None
            axis = ["1.%d" % m for m in MINORS] + ["nightly"]
            nsteps = 0
            for t in axis:
                r = results.get((hn, t, e))
                if r is None:
                    continue
                cur = caps(r[0])
                if prev is not None:
                    nsteps += 1
                    lost = prev - cur
                    if lost:
                        chk.add(Verdict(VIOLATED, "mono-%s-%s-%s" % (hn, e, t),
                                        "capabilities %s present at %s disappear at %s (edition %s)" % (sorted(lost), prev_t, t, e),
                                        files={"prev.rs": results[(hn, prev_t, e)][1], "cur.rs": r[1]}))
                prev, prev_t = cur, t
            chk.add(Verdict(HELD, "mono-%s-%s" % (hn, e), obs={"monotone_steps": nsteps}, nontrivial=True, key="mono-%s-%s" % (hn, e)))
            # patch / pre-release suffixes select the same feature set as their minor
            for (t, m) in targets:
                if t.count(".") >= 2 or "-" in t:
                    a, b = results.get((hn, t, e)), results.get((hn, "1.%d" % m, e)) if m else None
                    if a is not None and b is not None:
                        chk.count("suffix_equivalences")
                        if a[0] != b[0]:
                            chk.add(Verdict(VIOLATED, "suffix-%s-%s-%s" % (hn, t, e),
                                            "target %s selects a different feature set than 1.%d: %s vs %s" % (t, m, a[0], b[0])))
    # default target: newest known stable and its newest edition
    for hn, hp, hf in headers:
        rc, out, se, fl = gen(d, hp, hf, None, None, hn + "_default")
        if rc != 0:
            chk.add(Verdict(VIOLATED, "default-" + hn, "no target given: bindgen fails: " + se[:300]))
            continue
        text = open(out).read()
        cen = inventory(out)["census"]
        match = [t for t in ["1.%d" % m for m in MINORS] if results.get((hn, t, None)) and results[(hn, t, None)][1] == text]
        problems = []
        if not match:
            problems.append("output without --rust-target equals no explicit stable target's output")
        else:
            # it must include every capability any stable target of the grid has (newest known stable)
            allcaps = set()
            for m in MINORS:
                r = results.get((hn, "1.%d" % m, None))
                if r:
                    allcaps |= caps(r[0])
            if caps(cen) != allcaps:
                problems.append("default target lacks stable capabilities %s" % sorted(allcaps - caps(cen)))
            # and its newest edition: equal to explicitly asking for the newest edition that target accepts
            t0 = match[0]
            best = None
            for e in ("2024", "2021", "2018"):
                if results.get((hn, t0, e)) is not None:
                    best = e
                    break
            if best and results[(hn, t0, best)][1] != text:
                problems.append("default edition is not the newest edition (%s) of the default target %s" % (best, t0))
        if problems:
            chk.add(Verdict(VIOLATED, "default-" + hn, "\n".join(problems), files={"default.rs": text}))
        else:
            chk.add(Verdict(HELD, "default-" + hn, obs={"default_target_matches": len(match)}, nontrivial=True, key="default-" + hn,
                            sample={"default_equals": match[:3]}))
    # compile the plain header's outputs with the host rustc in the requested edition
    def comp(c):
        t, e = c
        r = results.get(("plain", t, e))
        if r is None:
            return None
        stem = "c_%s_%s" % (t.replace(".", "_"), e)
        src = write(os.path.join(d, stem + ".rs"), "#![allow(warnings)]\n" + r[1])
        rc, so, se, _ = sh(["rustc", "--edition", e or "2021", "--crate-type", "lib", "--emit=metadata", "-o",
                            os.path.join(d, stem + ".rmeta"), src], timeout=120)
        if rc != 0:
            return Verdict(VIOLATED, "compile-plain@%s/%s" % (t, e), "bindings for target %s edition %s do not compile with that edition: %s" % (t, e, se[:800]),
                           files={"out.rs": r[1]})
        return Verdict(HELD, "compile-plain@%s/%s" % (t, e), obs={"rustc_edition_compiles": 1})
    step = chk.pick(4, 1)
    chk.map(comp, [("1.%d" % m, e) for m in MINORS[::step] for e in ("2018", "2021", "2024")])
    return chk.finish(
        rule="case = one cell of the grid {header abi|plain} x {1.51..1.90, patch/beta/nightly-suffixed forms, nightly} x "
             "{no edition, 2018, 2021, 2024}; plus one monotonicity chain per (header, edition), default-target cells and "
             "host-rustc compiles of the plain header per edition; every cell is non-trivial (either gated constructs are "
             "counted against the release table or the rejection is checked)",
        assumptions=["independent release table: editions 1.31/1.56/1.85; core::ffi 1.64; const CStr 1.59; efiapi 1.68; C-unwind 1.71; "
                     "thiscall 1.73; offset_of / C-string literals 1.77 (literals need edition 2021); unsafe extern 1.82; "
                     "vectorcall, ptr_metadata, layout_for_ptr nightly only",
                     "constructs are recognised by vf-inv's token census"],
        exhaustive=True)
