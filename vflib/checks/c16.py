"""C16 — static-function wrappers compile and behave like the wrapped functions."""
import os
import re

from .. import build, hfuncs, probes
from ..core import HELD, INCONCLUSIVE, VIOLATED, Verdict, write
from ..core import run as sh
from ..htypes import RUSTC_FLAGS, inventory

LEVEL = "exploration"
PRELUDE = """int printf(const char *, ...);
int fflush(void *);
void *memset(void *, int, unsigned long);
typedef unsigned long uintptr_t;
static inline unsigned long long vf_fbits(double d) { union { double d; unsigned long long u; } x; x.d = d; return x.u; }
static inline unsigned int vf_fbitsf(float d) { union { float d; unsigned int u; } x; x.d = d; return x.u; }
"""


def make_header(lib, rng, extra_variadic):
    text = hfuncs.header(lib)
    text = text.replace("fflush(stdout)", "fflush(0)")
    if extra_variadic:
        text += "static inline int sv_variadic(int n, ...) { return n; }\n"
    return PRELUDE + text


def direct_c(lib):
    """C TU that (a) defines what the header only declares (callbacks), (b) calls every static function directly with the fixed values."""
    out = ['#include "h.h"']
    for cb in lib.cbs:
        n, rt, ps = cb
        body = 'printf("CB %s\\n");\n' % n
        for k, p in enumerate(ps):
            body += hfuncs.leaf_print(p, "c%d" % k, "%s.c%d" % (n, k))
        body += "fflush(0);\n"
        if rt:
            body += "return %s;\n" % hfuncs.c_value(rt, hfuncs.val_for(rt, n + ".ret"))
        out.append("static %s impl_%s(%s) {\n%s}" % (rt.c if rt else "void", n, ", ".join("%s c%d" % (p.c, k) for k, p in enumerate(ps)) or "void", body))
        out.append("%s get_%s(void) { return impl_%s; }" % (n, n, n))
    tab = hfuncs.rec_keys(lib)
    for r in lib.recs:
        t = hfuncs.T("%s %s" % (r.kw, r.name), "record", rec=r)
        fill = "void vf_fill_%s(%s %s *p, int k) {\n memset(p, 0, sizeof *p);\n switch (k) {\n" % (r.name, r.kw, r.name)
        show = "void vf_show_%s(const %s %s *p, int k) {\n switch (k) {\n" % (r.name, r.kw, r.name)
        for k, key in enumerate(tab[r.name]):
            fill += " case %d: %s break;\n" % (k, hfuncs.c_assign(t, "(*p)", key).replace("\n", " "))
            show += " case %d: %s break;\n" % (k, hfuncs.leaf_print(t, "(*p)", key).replace("\n", " "))
        out.append(fill + " }\n}\n")
        out.append(show + " }\n fflush(0);\n}\n")
    d = "void vf_direct_all(void) {\n"
    for fn in lib.fns:
        args = []
        pre = ""
        for j, p in enumerate(fn.params):
            key = "%s.a%d" % (fn.name, j)
            if p.kind == "record":
                pre += "%s v%d; vf_fill_%s(&v%d, %d);\n" % (p.c, j, p.rec.name, j, tab[p.rec.name].index(key))
                args.append("v%d" % j)
            elif getattr(fn, "arrparam", False) and j == 0 and p.kind in ("int", "float"):
                args.append("(%s *)(uintptr_t)0x%xULL" % (p.c, hfuncs.val_for(hfuncs.T("p", "ptr", False, 64), key)))
            else:
                args.append(hfuncs.c_value(p, hfuncs.val_for(p, key)))
        if fn.cb:
            args.append("get_%s()" % fn.cb[0])
        call = "%s(%s)" % (fn.name, ", ".join(args))
        d += "{ %s" % pre
        if fn.ret is None:
            d += "%s;" % call
        elif fn.ret.kind == "record":
            d += "%s r = %s; vf_show_%s(&r, %d);" % (fn.ret.c, call, fn.ret.rec.name, tab[fn.ret.rec.name].index(fn.name + ".ret"))
        else:
            d += "%s r = %s; %s" % (fn.ret.c, call, hfuncs.leaf_print(fn.ret, "r", fn.name + ".ret").strip())
        d += " }\n"
    d += "fflush(0);\n}\nvoid vf_dump_globals(void) {}\nvoid vf_sigs(void) {}\n"
    out.append(d)
    return "\n".join(out) + "\n"


def case(chk, i):
    rng = chk.rng("lib", i)
    lib = hfuncs.generate(rng, nfn=rng.randint(1, 16), static_only=True)
    d = chk.dir("s%d" % (i % 48))
    for f in os.listdir(d):
        try:
            os.unlink(os.path.join(d, f))
        except OSError:
            pass
    has_bool = any(p.kind == "bool" for fn in lib.fns for p in fn.params) or any(fn.ret is not None and fn.ret.kind == "bool" for fn in lib.fns)
    extra_var = rng.random() < 0.4
    hdr = write(os.path.join(d, "h.h"), make_header(lib, rng, extra_var))
    suffix = rng.choice([None, None, "_w", "__vf_extern"])
    wrap = os.path.join(d, rng.choice(["wrap", "my wrappers", "w-x_1"]))
    flags = ["--experimental", "--wrap-static-fns", "--wrap-static-fns-path", wrap] + (["--wrap-static-fns-suffix", suffix] if suffix else [])
    flags += rng.choice([[], ["--merge-extern-blocks"], ["--default-enum-style", "rust"], ["--rust-target", "1.70"],
                         # an ABI override on (some of) the static functions: they are wrapped like the others (C-unwind is call-compatible with C)
                         ["--override-abi", "fn[0-9]*[02468]=C-unwind"], ["--override-abi", ".*=C-unwind", "--merge-extern-blocks"]])
    name = "static-%d" % i
    b = os.path.join(d, "b.rs")
    rc, so, se, _ = sh([build.BINDGEN, hdr] + flags + ["-o", b], timeout=120, cpu=100)
    files = {"h.h": open(hdr).read(), "flags.txt": " ".join(flags)}
    if rc != 0:
        return Verdict(INCONCLUSIVE, name, "bindgen failed: " + se[-400:])
    wc = wrap + ".c"
    if not os.path.exists(wc):
        return Verdict(VIOLATED, name, "static functions got bindings but no wrapper source was written at %s" % wc, files=files)
    files["wrap.c"] = open(wc).read()
    files["bindings.rs"] = open(b).read()
    sfx = suffix or "__extern"
    obs = {"headers": 1, "static_functions": len(lib.fns) + 2, "wrapper_symbols_checked": 0, "calls_compared": 0, "values_compared": 0}
    wo = os.path.join(d, "wrap.o")
    rc, so, se, _ = sh(["clang", "-O1", "-c", wc, "-o", wo, "-I", d], timeout=120)
    if rc != 0:
        sig = None
        if has_bool and re.search(r"unknown type name 'bool'|use of undeclared identifier 'bool'", se):
            sig = "c16.bool-without-stdbool"
        elif re.search(r"\(\*\)\s*\([^)]*\)\s+\w+__?\w*\(", open(wc).read()) or "expected identifier or '('" in se:
            sig = None
        return Verdict(VIOLATED, name, "the emitted wrapper source does not compile with the same flags: " + se[:900], files=files, obs=obs, signature=sig)
    warn = len(re.findall(r"warning:", se))
    obs["wrapper_compile_warnings"] = warn
    rc, nm, se, _ = sh(["llvm-nm", "-g", "--defined-only", wo], timeout=60)
    defined = sorted(l.split()[-1] for l in nm.splitlines() if l.strip())
    inv = inventory(b)
    bound = {}
    for it in inv["items"]:
        if it["kind"] == "extern_block":
            for m in it["members"]:
                if m["kind"] == "foreign_fn":
                    bound[m["name"]] = m.get("link_name")
    statics = [fn.name for fn in lib.fns] + ["vf_fbits", "vf_fbitsf"]
    problems = []
    want = sorted(n + sfx for n in statics if n in bound)
    obs["wrapper_symbols_checked"] = len(want)
    if defined != want:
        problems.append("externally visible wrappers %s differ from the static functions that got a binding (+suffix) %s" % (defined, want))
    for n in statics:
        if n not in bound:
            problems.append("static function %s got no binding" % n)
        elif (bound[n] or n) != n + sfx:
            problems.append("binding of %s links to %r, wrapper is named %s" % (n, bound[n], n + sfx))
    if extra_var:
        if "sv_variadic" in bound:
            problems.append("variadic static function got a binding")
        if any("sv_variadic" in s for s in defined):
            problems.append("variadic static function got a wrapper")
    if problems:
        return Verdict(VIOLATED, name, "\n".join(problems), files=files, obs=obs)
    # behaviour: Rust through the binding vs direct C call
    dc = write(os.path.join(d, "direct.c"), direct_c(lib))
    do = os.path.join(d, "direct.o")
    rc, so, se, _ = sh(["clang", "-w", "-O1", "-c", dc, "-o", do, "-I", d], timeout=120)
    if rc != 0:
        return Verdict(INCONCLUSIVE, name, "harness: direct.c does not compile: " + se[:500])
    view = probes.RustView(inv)
    src, info = hfuncs.emit_rs(lib, view, b, None)
    src = src.replace("fn main() { unsafe {", 'extern "C" { fn vf_direct_all(); }\nfn main() { unsafe {\n    println!("PHASE direct"); vf_direct_all(); println!("PHASE binding");', 1)
    prs = write(os.path.join(d, "caller.rs"), src)
    exe = os.path.join(d, "caller")
    rc, so, se, _ = sh(["rustc"] + RUSTC_FLAGS + [prs, "-C", "link-arg=" + wo, "-C", "link-arg=" + do, "-o", exe], timeout=300)
    files["caller.rs"] = src
    if rc != 0:
        if "undefined" in se:
            return Verdict(VIOLATED, name, "bindings refer to wrapper symbols that are not defined: " + se[-600:], files=files, obs=obs)
        return Verdict(INCONCLUSIVE, name, "caller does not compile: " + se[:500])
    rc, so, se, _ = sh([exe], timeout=60)
    files["out.txt"] = so[-20000:]
    if rc != 0:
        return Verdict(VIOLATED, name, "calling the wrappers crashed rc=%s %s" % (rc, se[-300:]), files=files, obs=obs)
    phases = {"direct": [], "binding": []}
    cur = None
    for line in so.splitlines():
        if line.startswith("PHASE "):
            cur = line.split()[1]
        elif cur and not line.startswith(("SIG ", "CSIG ", "ABI ")):
            phases[cur].append(line)
    obs["calls_compared"] = sum(1 for l in phases["direct"] if l.startswith("CALL "))
    obs["values_compared"] = len(phases["direct"])
    exp = hfuncs.expected_lines(lib)
    got_b = {}
    for l in phases["binding"]:
        p = l.split(" ", 1)
        if len(p) == 2:
            got_b.setdefault(p[0], p[1])
    for label, wantv in exp.items():
        if label in got_b and got_b[label] != wantv:
            problems.append("%s through the binding: %s, expected %s" % (label, got_b[label], wantv))
    if sorted(phases["direct"]) != sorted(phases["binding"]):
        da = [l for l in phases["direct"] if l not in phases["binding"]][:4]
        db = [l for l in phases["binding"] if l not in phases["direct"]][:4]
        problems.append("calling through the bindings and calling the static functions directly from C observe different things: only-direct %s only-binding %s" % (da, db))
    if problems:
        return Verdict(VIOLATED, name, "\n".join(problems[:10]), files=files, obs=obs)
    return Verdict(HELD, name, obs=obs, nontrivial=obs["calls_compared"] >= 1, key=name,
                   sample={"wrapper": open(wc).read()[:700], "suffix": sfx} if i % 23 == 0 else None)


DECLARATORS = [
    ("retfp", "static inline int (*sd_retfp(int k))(int) { return (int (*)(int))0; }", "c16.declarator-function-returning-function-pointer"),
    ("ptrarr", "static inline int sd_ptrarr(int (*pa)[4]) { return pa ? (*pa)[1] : -1; }", "c16.declarator-pointer-to-array"),
    ("constptr", "static inline const char *sd_cc(const char *const p, const int *const *q) { return p; }", None),
    ("fnptr-param", "static inline int sd_fpp(int (*f)(int, char), void (*g)(void)) { return f ? f(1, 2) : 0; }", None),
    ("unnamed", "static inline long sd_unnamed(int, long b, char) { return b; }", None),
    ("voidret", "static inline void sd_void(int *out) { if (out) *out = 7; }", None),
    ("arr2d", "static inline int sd_arr2(int m[2][3]) { return m[1][2]; }", None),
    ("enumparam", "enum sd_e { SD_A, SD_B = 5 }; static inline enum sd_e sd_en(enum sd_e e) { return e; }", None),
    ("structret", "struct sd_s { double a; char b; }; static inline struct sd_s sd_sr(struct sd_s s) { s.b = 1; return s; }", None),
    ("valist", "static inline int sd_val(int n, __builtin_va_list ap) { return n; }", None),
    ("fn-typedef", "typedef int sd_fn_t(int); static sd_fn_t sd_viatd; static inline int sd_user(int a) { return a; }", "c16.function-declared-through-typedef-panics"),
    ("fn-typedef-def", "typedef int sd_fn2_t(int, char); static sd_fn2_t sd_viatd2; static int sd_viatd2(int a, char b) { return a + b; }",
     "c16.function-declared-through-typedef-panics"),
    ("noproto", "static inline int sd_noproto() { return 3; }", None),
    ("restrict", "static inline int sd_restrict(int *restrict a, const char *restrict b) { return *a + *b; }", None),
    ("volatile", "static inline int sd_vol(volatile int *p, const volatile long v) { return *p + (int)v; }", None),
    ("boolret", "static inline _Bool sd_bool(_Bool a, unsigned char b) { return a && b; }", None),
    ("longdouble", "static inline long double sd_ld(long double a, float b) { return a + b; }", None),
    ("int128", "static inline __int128 sd_i128(unsigned __int128 a, __int128 b) { return (__int128)a + b; }", None),
    ("complex", "static inline double _Complex sd_cx(float _Complex a) { return a; }", None),
    ("union-param", "union sd_u { int i; float f; }; static inline union sd_u sd_un(union sd_u u, union sd_u *p) { return p ? *p : u; }", None),
    ("anon-struct-typedef", "typedef struct { int a; } sd_anon_t; static inline sd_anon_t sd_at(sd_anon_t v, const sd_anon_t *p) { return v; }", None),
    ("fnptr-typedef", "typedef int (*sd_cb_t)(int); static inline sd_cb_t sd_cbid(sd_cb_t f, sd_cb_t *pf) { return f; }", None),
    ("ptrptr", "static inline char **sd_pp(char **a, const char *const *b, void ***c) { return a; }", None),
    ("array-of-ptr", "static inline int sd_ap(int *a[3], const char *b[]) { return *a[0]; }", None),
    ("enum-typedef", "typedef enum { SD_X, SD_Y } sd_te; static inline sd_te sd_tef(sd_te e, sd_te *p) { return e; }", None),
]


def declarator_case(chk, t):
    name, text, sig = t
    d = chk.dir("decl-" + name)
    hdr = write(os.path.join(d, "d.h"), text + "\n")
    wrap = os.path.join(d, "w")
    b = os.path.join(d, "b.rs")
    rc, so, se, _ = sh([build.BINDGEN, hdr, "--experimental", "--wrap-static-fns", "--wrap-static-fns-path", wrap, "-o", b], timeout=60)
    cname = "declarator-" + name
    if rc != 0 and "panicked at" in se:
        return Verdict(VIOLATED, cname, "bindgen panics instead of wrapping or skipping `%s`: %s" % (text, " ".join(se.split("panicked at", 1)[1].split()[:12])),
                       files={"d.h": text}, signature=sig)
    if rc != 0 and "serialization error" in se:
        # a type the wrapper serialiser declares unsupported: an error value, neither a panic nor a dangling binding
        return Verdict(HELD, cname, obs={"declarator_cases": 1, "serialisation_errors_reported": 1})
    if rc != 0:
        return Verdict(INCONCLUSIVE, cname, "bindgen failed " + se[-200:])
    files = {"d.h": text, "bindings.rs": open(b).read()}
    if not os.path.exists(wrap + ".c"):
        if "fn sd_" in files["bindings.rs"]:
            return Verdict(VIOLATED, cname, "binding without wrapper file", files=files, signature=sig)
        return Verdict(HELD, cname, obs={"declarator_cases": 1})
    files["w.c"] = open(wrap + ".c").read()
    rc, so, se, _ = sh(["clang", "-Werror=incompatible-pointer-types", "-c", wrap + ".c", "-o", os.path.join(d, "w.o"), "-I", d], timeout=60)
    if rc != 0:
        return Verdict(VIOLATED, cname, "wrapper for `%s` does not compile: %s\n%s" % (text, se[:500], files["w.c"][-300:]), files=files, signature=sig)
    rc, nm, se, _ = sh(["llvm-nm", "-g", "--defined-only", os.path.join(d, "w.o")], timeout=60)
    syms = [l.split()[-1] for l in nm.splitlines() if l.strip()]
    fn = re.findall(r"fn (sd_\w+)", files["bindings.rs"])
    if sorted(syms) != sorted(f + "__extern" for f in fn):
        return Verdict(VIOLATED, cname, "wrapper symbols %s vs bindings %s" % (syms, fn), files=files, signature=sig)
    return Verdict(HELD, cname, obs={"declarator_cases": 1}, nontrivial=True, key=cname)


KW_STATIC = ["type", "match", "loop", "move", "impl", "use", "ref", "mod", "where", "async", "dyn", "box", "in", "let", "pub", "self", "trait", "unsafe",
             "yield", "try", "gen", "fn", "as", "crate", "super", "mut", "priv", "macro", "abstract", "final", "override", "virtual"]


def keyword_case(chk):
    """static functions whose C name is a Rust keyword (the binding is renamed `type_`): every binding still names a wrapper that exists,
    and calling it reaches the function"""
    d = chk.dir("kwstatic")
    text = "".join("static inline int %s(int a) { return a * 100 + %d; }\n" % (w, k) for k, w in enumerate(KW_STATIC))
    hdr = write(os.path.join(d, "kw.h"), text)
    wrap = os.path.join(d, "w")
    b = os.path.join(d, "b.rs")
    rc, so, se, _ = sh([build.BINDGEN, hdr, "--experimental", "--wrap-static-fns", "--wrap-static-fns-path", wrap, "-o", b], timeout=60)
    if rc != 0:
        return Verdict(INCONCLUSIVE, "keyword-named-statics", "bindgen failed " + se[-200:])
    bt = open(b).read()
    files = {"kw.h": text, "bindings.rs": bt, "w.c": open(wrap + ".c").read() if os.path.exists(wrap + ".c") else ""}
    rc, so, se, _ = sh(["clang", "-c", wrap + ".c", "-o", os.path.join(d, "w.o"), "-I", d], timeout=60)
    if rc != 0:
        return Verdict(VIOLATED, "keyword-named-statics", "wrapper source does not compile: " + se[:400], files=files)
    rc, nm, se, _ = sh(["llvm-nm", "-g", "--defined-only", os.path.join(d, "w.o")], timeout=60)
    syms = set(l.split()[-1] for l in nm.splitlines() if l.strip())
    links = re.findall(r'link_name = "(?:\\u\{1\})?([^"]+)"\]\s*pub fn (\w+)', bt)
    dangling = sorted(ln for ln, fn_ in links if ln not in syms)
    unbound = sorted(w for w in KW_STATIC if not re.search(r"pub fn (?:r#)?%s_?\s*\(" % w, bt))
    if dangling or unbound:
        return Verdict(VIOLATED, "keyword-named-statics", "bindings name symbols no wrapper defines: %s; static functions without a binding: %s" % (dangling[:8], unbound[:8]), files=files)
    # behaviour: call every one
    calls = "".join('    assert_eq!(unsafe { %s(7) }, %d);\n' % (fn_, 700 + KW_STATIC.index(fn_.rstrip("_").replace("r#", "")) if fn_.rstrip("_").replace("r#", "") in KW_STATIC else -1) for ln, fn_ in links)
    prs = write(os.path.join(d, "m.rs"), '#![allow(warnings)]\ninclude!("%s");\nfn main() {\n%s    println!("ok {}", %d);\n}\n' % (b, calls, len(links)))
    rc, so, se, _ = sh(["rustc", "--edition", "2021", prs, "-C", "link-arg=" + os.path.join(d, "w.o"), "-o", os.path.join(d, "m")], timeout=180)
    if rc != 0:
        return Verdict(VIOLATED if "undefined" in se else INCONCLUSIVE, "keyword-named-statics", "caller does not build: " + se[:500], files=files)
    rc, so, se, _ = sh([os.path.join(d, "m")], timeout=30)
    if rc != 0 or not so.startswith("ok %d" % len(KW_STATIC)):
        return Verdict(VIOLATED, "keyword-named-statics", "calling the renamed bindings: rc=%s %s %s" % (rc, so[:100], se[:300]), files=files)
    return Verdict(HELD, "keyword-named-statics", obs={"keyword_named_static_functions": len(links)}, nontrivial=True, key="keyword-named-statics")


def cxx_repro(chk):
    d = chk.dir("cxx")
    hdr = write(os.path.join(d, "s.hpp"), "static inline int add(int a, int b) { return a + b; }\n")
    wrap = os.path.join(d, "w")
    b = os.path.join(d, "b.rs")
    rc, so, se, _ = sh([build.BINDGEN, hdr, "--experimental", "--wrap-static-fns", "--wrap-static-fns-path", wrap, "-o", b], timeout=60)
    if rc != 0:
        return Verdict(INCONCLUSIVE, "repro-cxx", se[-200:])
    text = open(b).read()
    has_binding = "fn add" in text
    wrote = os.path.exists(wrap + ".cpp") or os.path.exists(wrap + ".c")
    if has_binding and not wrote:
        return Verdict(VIOLATED, "repro-cxx-no-wrapper", "C++ mode: static function gets a binding (%s) but no wrapper source is written" % (
            re.findall(r'link_name = "([^"]*)"', text)[:1]), signature="c16.cxx-no-wrapper-file")
    return Verdict(HELD, "repro-cxx")


def run(chk):
    chk.add(cxx_repro(chk))
    chk.map(lambda t: declarator_case(chk, t), DECLARATORS)
    chk.add(keyword_case(chk))
    chk.map(lambda i: case(chk, i), range(chk.pick(40, 400)), budget_s=chk.pick(500, 3000))
    return chk.finish(
        rule="case = generated header of 1..16 static / static inline functions (bodies print what arrives and return fixed values) over scalars, "
             "_Bool, typedefs, enums, const and non-const pointers, array parameters, by-value aggregates, callbacks, void returns; default and "
             "custom suffix, wrapper paths with spaces and dots; plus a variadic static that must get neither binding nor wrapper. Oracle: "
             "the wrapper source compiles with the same flags; `llvm-nm -g --defined-only` == { name+suffix : static functions with a "
             "binding }; every binding's link name is its wrapper; one executable runs every function once directly from C and once through "
             "the Rust binding and the two observation logs (arguments as seen by the callee, callback traffic, return values) must be equal "
             "and equal to the orchestrator's values. Non-trivial = at least one call compared.",
        assumptions=["x86_64 host; clang 14 compiles the wrapper", "C++ mode is represented by its recorded finding's reproducer only"])
