"""C01 — generated bindings compile for every accepted header and option set."""
import os
import re

from .. import build, corpus, drv, gen_funcs, gen_names, hostile, mutate, optsets
from .. import gen_ctypes as G
from ..core import HELD, INCONCLUSIVE, VIOLATED, Verdict, write
from ..core import run as sh
from .c12 import classify_clang, crashed, panic_signature

LEVEL = "exploration"

# option groups whose output is expected to compile on its own (documented exceptions are left out:
# --no-recursive-allowlist, --represent-cxx-operators, --use-distinct-char16_t, dynamic loading / objc (need crates))
POOL = [
    ["--with-derive-default"], ["--with-derive-hash"], ["--with-derive-partialeq"], ["--with-derive-eq", "--with-derive-partialeq"],
    ["--with-derive-ord", "--with-derive-partialord", "--with-derive-eq", "--with-derive-partialeq"], ["--with-derive-partialord", "--with-derive-partialeq"],
    ["--impl-debug"], ["--impl-partialeq", "--with-derive-partialeq"], ["--no-derive-debug"], ["--no-derive-default"],
    ["--default-enum-style", "rust"], ["--default-enum-style", "newtype"], ["--default-enum-style", "moduleconsts"], ["--default-enum-style", "bitfield"],
    ["--default-enum-style", "newtype_global"], ["--default-enum-style", "rust_non_exhaustive"], ["--default-enum-style", "consts"],
    ["--default-alias-style", "new_type"], ["--default-alias-style", "new_type_deref"], ["--default-non-copy-union-style", "manually_drop"],
    ["--enable-cxx-namespaces"], ["--c-naming"], ["--explicit-padding"], ["--no-layout-tests"], ["--use-core"],
    ["--ctypes-prefix", "::core::ffi"],
    ["--merge-extern-blocks"], ["--sort-semantically"], ["--wrap-unsafe-ops"], ["--generate-cstr"], ["--no-prepend-enum-name"],
    ["--translate-enum-integer-types"], ["--fit-macro-constant-types"], ["--default-macro-constant-type", "signed"], ["--generate-inline-functions"],
    ["--rust-target", "1.64"], ["--rust-target", "1.70"], ["--rust-target", "1.76"], ["--rust-target", "1.77"], ["--rust-target", "1.82"],
    ["--disable-nested-struct-naming"], ["--disable-name-namespacing"], ["--conservative-inline-namespaces"], ["--no-doc-comments"],
    ["--enable-function-attribute-detection"], ["--vtable-generation"], ["--use-array-pointers-in-arguments"], ["--anon-fields-prefix", "an_"],
    ["--no-size_t-is-usize"], ["--respect-cxx-access-specs"], ["--default-visibility", "crate"], ["--no-convert-floats"],
    ["--with-attribute-custom", ".*=#[allow(dead_code)]"], ["--must-use-type", ".*"], ["--generate", "types"], ["--generate", "functions,types"],
    ["--ignore-functions"], ["--ignore-methods"], ["--distrust-clang-mangling"], ["--formatter", "none"], ["--formatter", "prettyplease"],
    ["--generate-deleted-functions", "--generate-private-functions", "--generate-pure-virtual-functions"],
    ["--use-specific-virtual-function-receiver"], ["--generate-cxx-nonnull-references"], ["--override-abi", ".*=C-unwind"], ["--time-phases"],
]
# documented as unsupported by book/src/cpp.md: only under the C12 oracle
UNSUPPORTED_CXX = {"template_spec", "virtual_inherit", "template_template", "template_nontype", "recursive_template", "typename_dependent"}
# single constructs whose bindings do not compile on the unchanged tree (recorded findings, one signature each)
KNOWN_BAD_SNIPPETS = {"complex", "aligned_packed", "underscore", "unicode_ident", "multiple_inherit", "div_zero_macro", "redefine_size_t",
                      "tag_fn_var_collision", "fp16", "template_alias", "void_ptr_arith_types",
                      "aligned_typedef_scalar", "aligned_lower_typedef", "packed_member", "vector_small"}
# option groups that hit recorded defects in combination with some families (each has its own reproducer / finding)
NOT_FOR_HOSTILE = {"--explicit-padding", "--impl-debug"}
EDITIONS = [(None, "2021"), ("2018", "2018"), ("2021", "2021"), ("2024", "2024")]


def sample_flags(rng):
    k = rng.choice([0, 1, 1, 2, 3, 5])
    fl = []
    for g in rng.sample(POOL, k):
        if g[0] in fl and g[0] in ("--rust-target", "--default-enum-style", "--default-alias-style", "--formatter", "--generate", "--raw-line"):
            continue
        fl += g
    return fl


def gen_case(chk, i):
    rng = chk.rng("case", i)
    fam = rng.choice(["types", "types", "funcs", "names", "names", "cxx", "cxx-classes", "cxx-graph", "hostile", "hostile-cxx"])
    d = chk.dir("c%d" % (i % 64))
    cargs, ext = [], "h"
    model = None
    if fam == "types":
        model = G.Gen(rng, dict(bf_in_union=False, p_packed=0.08, p_aligned=0.06, p_pragma=0.05)).generate()
        text = model.header()
    elif fam == "funcs":
        text = gen_funcs.gen_c(rng, rng.randint(8, 40))[0]
    elif fam == "names":
        sub = rng.choice(["clean"] * 8 + ["tag-typedef-collision", "derive-names", "internal-names"])
        text = gen_names.generate(rng, rng.randint(6, 20), sub)[0]
        fam = "names" if sub == "clean" else "names:" + sub
    elif fam == "cxx":
        text, ext, cargs = gen_funcs.gen_cxx(rng, rng.randint(6, 20)), "hpp", ["-std=c++17"]
    elif fam == "cxx-classes":
        # classes with overloaded constructors, destructors, const / static / virtual / overloaded methods whose names (and some field names)
        # are Rust keywords or the names bindgen itself gives to wrapper methods and synthetic fields (new, new1, destruct, _base, vtable_, ...)
        from .. import hcxx
        text, ext, cargs = hcxx.header(hcxx.generate(rng, hostile_names=True)), "hpp", ["-std=c++14"]
    elif fam == "cxx-graph":
        # class / template graphs (bases, virtual methods, destructors, copy constructors, templates instantiated with own parameters,
        # builtins and classes, typedef chains, bit-fields) in a random valid declaration order; layout is C02's, here the items must compile
        from .. import gen_graph
        # (40%: chains of templates each holding an instantiation of the previous one with its own parameter, 2..5 deep)
        g_ = gen_graph.generate_chain(rng) if rng.random() < 0.4 else gen_graph.generate(rng, lang="cxx")
        ords_, _n = gen_graph.valid_orders(g_, rng, 1)
        text, ext, cargs = gen_graph.render(g_, ords_[0], hoist=rng.random() < 0.5), "hpp", ["-std=c++14"]
    elif fam == "hostile":
        parts = rng.sample(hostile.C, rng.randint(1, 3))
        text = "\n".join(p[1] for p in parts) + "\n"
        bad = [p[0] for p in parts if p[0] in KNOWN_BAD_SNIPPETS]
        if bad:
            fam = "hostile:" + bad[0]
    elif fam == "hostile-cxx":
        parts = rng.sample([p for p in hostile.CXX if p[0] not in UNSUPPORTED_CXX], rng.randint(1, 2))
        bad = [p[0] for p in parts if p[0] in KNOWN_BAD_SNIPPETS]
        if bad:
            fam = "hostile:" + bad[0]
        text, ext, cargs = "\n".join(p[1] for p in parts) + "\n", "hpp", ["-std=c++%s" % rng.choice(["14", "17", "20"])]
    else:
        ents = corpus.entries()
        e = ents[rng.randrange(len(ents))]
        text = open(e[0], errors="replace").read()
        text, _ = mutate.mutate(text, rng, [text])
        ext = os.path.splitext(e[0])[1][1:]
        cargs = ["-I", corpus.HEADERS] + list(e[2])
    p = write(os.path.join(d, "c%d.%s" % (i, ext)), text)
    flags = sample_flags(rng)
    if fam.startswith("hostile") or fam in ("cxx", "cxx-classes", "cxx-graph"):
        flags = [f for f in flags if f not in NOT_FOR_HOSTILE]
    if fam == "cxx-graph" and "--no-layout-tests" not in flags:
        flags = flags + ["--no-layout-tests"]
    if ext == "hpp":
        # C-only naming options: with C++ namespaces they give inconsistent names (see DESIGN.md §6)
        flags = [f for f in flags if f not in ("--c-naming", "--disable-nested-struct-naming")]
    if model is not None:
        pr0 = optsets.model_predicates(model)
        if pr0["packed"]:
            flags = [f for f in flags if f != "--impl-debug"]
        if pr0["enum_bitfield"] and "--default-enum-style" in flags:
            j = flags.index("--default-enum-style")
            if flags[j + 1] in ("newtype", "bitfield", "newtype_global"):
                del flags[j:j + 2]
    if fam == "mutant":
        flags = [f for f in e[1] if f not in ("--represent-cxx-operators", "--use-distinct-char16_t", "--no-recursive-allowlist")] if rng.random() < 0.5 else flags
        if any(x in " ".join(e[1]) for x in ("--represent-cxx-operators", "--use-distinct-char16_t", "--no-recursive-allowlist", "dynamic", "objc", "--raw-line", "--ctypes-prefix", "--blocklist", "--opaque", "--module-raw-line", "--flexarray-dst", "derive-custom", "attribute-custom")):
            flags = sample_flags(rng)
    bind_ed, rustc_ed = rng.choice(EDITIONS)
    if bind_ed:
        if "--rust-target" in flags:
            j = flags.index("--rust-target")
            del flags[j:j + 2]
        flags += ["--rust-edition", bind_ed] + (["--rust-target", "1.85"] if bind_ed == "2024" else [])
    name = "%s-%d" % (fam.replace(":", "_"), i)
    acc = classify_clang(p, cargs, d)
    if not acc:
        return Verdict(HELD, name, obs={"headers_clang_rejects": 1})
    out = os.path.join(d, "b%d.rs" % i)
    rc, so, se, _ = sh([build.BINDGEN, p] + flags + ["-o", out, "--"] + cargs, timeout=300, cpu=120, cwd=d)
    files = {"input." + ext: text, "flags.txt": " ".join(flags + ["--"] + cargs)}
    obs = {"accepted_headers": 1, "family." + fam: 1}
    if rc is None:
        return Verdict(INCONCLUSIVE, name, "watchdog")
    if rc != 0:
        if crashed(rc, se):
            return Verdict(HELD, name, obs={"bindgen_crashes_deferred_to_C12": 1})
        if "error:" in se:
            return Verdict(HELD, name, obs={"clang_cli_vs_libclang_disagree": 1})
        return Verdict(HELD, name, obs={"bindgen_errors_deferred_to_C12": 1})
    wrapper = write(os.path.join(d, "w%d.rs" % i), '#![allow(warnings)]\ninclude!("%s");\n' % out)
    rcr, sor, ser, _ = sh(["rustc", "--edition", rustc_ed, "--crate-type", "lib", "--emit=metadata", "-o", os.path.join(d, "w%d.rmeta" % i), wrapper],
                          timeout=300)
    obs["rustc_runs"] = 1
    for f in (os.path.join(d, "w%d.rmeta" % i),):
        try:
            os.unlink(f)
        except OSError:
            pass
    if rcr is None:
        return Verdict(INCONCLUSIVE, name, "rustc watchdog")
    if rcr == 0:
        try:
            os.unlink(out)
        except OSError:
            pass
        return Verdict(HELD, name, obs=obs, nontrivial=True, key=name, sample={"family": fam, "flags": flags, "edition": rustc_ed, "header": text[:400]} if i % 173 == 0 else None)
    files["bindings.rs"] = open(out).read()
    files["rustc.txt"] = ser[-6000:]
    sig = signature(ser, text, flags, model, fam)
    return Verdict(VIOLATED, name, "rustc (edition %s) rejects the bindings: %s" % (rustc_ed, first_errors(ser)), files=files, obs=obs, signature=sig)


def first_errors(err, n=2):
    es = re.findall(r"^error(?:\[E\d+\])?: [^\n]*(?:\n[^\n]*){0,4}", err, re.M)
    return "\n".join(es[:n])[:1200]


def signature(err, text, flags, model, fam):
    codes = sorted(set(re.findall(r"^error\[(E\d+)\]", err, re.M)))
    fl = " ".join(flags)
    msgs = re.findall(r"^error(?:\[E\d+\])?: ([^\n]*)", err, re.M)
    first = msgs[0] if msgs else ""
    norm = re.sub(r"`[^`]*`", "`…`", first)
    norm = re.sub(r"\d+", "N", norm)
    pr = optsets.model_predicates(model) if model is not None else None
    if fam.startswith("names:") or fam.startswith("hostile:"):
        return "c01." + fam
    if fam == "cxx-graph" and codes in (["E0412"], ["E0425"]) and set(re.findall(r"cannot find type `(\w+)` in this scope", err)) <= {"A", "B"} \
            and re.search(r"T\d+<[^<>]*\b[AB]\b[^<>]*,[^<>]*\b(?:int|char|short|long|bool|float|double|unsigned long|long long|C\d+)\b[^<>]*>|"
                          r"T\d+<[^<>]*\b(?:int|char|short|long|bool|float|double|unsigned long|long long|C\d+)\b[^<>]*,[^<>]*\b[AB]\b[^<>]*>", text):
        return "c01.template-mixed-dependent-instantiation"
    if fam == "cxx-classes" and set(codes) <= {"E0428", "E0592", "E0201", "E0308", "E0061", "E0034"} and "E0428" in codes:      # (E0428: the extern fns themselves collide)
        dup = set(re.findall(r"the name `(\w+)` is defined multiple times", err)) | set(re.findall(r"duplicate definitions with name `(\w+)`", err))
        # overload N of method `f` is named `fN`: it collides with a method that is really called `fN` (destruct / destruct1, new1 / new11, ...)
        digit_methods = set(re.findall(r"\b(\w*\D)(\d+)\(", text))
        if dup and all(re.search(r"\d$", d_) for d_ in dup) and digit_methods:
            return "c01.cxx-overload-suffix-collision"
    if fam == "cxx-classes" and "E0124" in codes and set(codes) <= {"E0124", "E0080", "E0062"}:       # (E0062: the same field twice in a hand-written Default)
        dup = set(re.findall(r"field `(\w+)` is already declared", err))
        if dup and dup <= {"vtable_", "_base", "_base_1"} and all(re.search(r"\b%s;" % re.escape(x), text) for x in dup):
            return "c01.cxx-user-field-named-like-synthetic-field"
    if codes == ["E0605"] and re.search(r"enum-style (newtype|bitfield|newtype_global)", fl.replace("--default-", "")) and (pr is None or pr["enum_bitfield"] or fam != "types"):
        return "c01.enum-bitfield-newtype-cast"
    if "E0588" in codes and set(codes) <= {"E0588", "E0080"}:
        return "c01.packed-contains-aligned"
    if "E0587" in codes and set(codes) <= {"E0587", "E0588", "E0080"}:
        return "c01.packed-and-aligned"
    if codes == ["E0793"] and "--impl-debug" in fl:
        return "c01.impl-debug-packed-reference"
    if codes == ["E0277"] and "__BindgenOpaqueArray" in err and re.search(r"derive-(partialeq|eq|ord|partialord|hash)|impl-partialeq", fl):
        return "c01.derive-through-opaque-array-padding"
    if codes == ["E0432"] and "--disable-name-namespacing" in fl and "--enable-cxx-namespaces" in fl and "unresolved import `self::super::" in err:
        return "c01.enum-typedef-use-path-with-both-namespacing-flags"
    if codes == ["E0277"] and "__BindgenComplex" in err and re.search(r"derive-(ord|partialord|eq)", fl) and "_Complex" in text:
        return "c01.derive-ord-through-bindgen-complex"
    if codes == ["E0080"] and model is not None and re.search(r'"Alignment of [^"]*"\]\[[^\n]*- 1usize', err) and has_packed_union(model):
        return "c01.rustc:E0080:index out of bounds: the length is N but the index is N|packed-union"
    return ("c01.rustc:%s:%s" % (",".join(codes), norm))[:140]


def has_packed_union(model):
    def walk(rec, packed_ctx):
        p = packed_ctx or rec.packed or bool(rec.pragma_pack)
        if rec.kw == "union" and p:
            return True
        return any(f.inline is not None and walk(f.inline, p) for f in rec.fields)
    return any(walk(r, False) for r in model.records)


def cluster_case(chk, k, case):
    """full cross products of interacting option clusters (enum / alias / union styles) under the compile oracle"""
    name, ext, text, flags = case
    # two constructs of the shared cluster headers are recorded compile findings of their own (newtype alias of void; union template
    # with a by-value type parameter, E0740): they stay in C12's no-panic workload only
    text = text.replace("typedef void v_t; typedef v_t *vp_t; ", "").replace(" template <typename T> union tu { T t; int i; }; struct ht { tu<int> a; };", "")
    d = chk.dir("cl%d" % (k % 32))
    p = write(os.path.join(d, "cl%d.%s" % (k, ext)), text)
    cargs = ["-std=c++17"] if ext == "hpp" else []
    cname = "cluster-%s-%d" % (name, k)
    if ext == "hpp":
        flags = [f for f in flags if f not in ("--c-naming",)]
    if "--disable-untagged-union" in flags or "--no-derive-copy" in flags:
        return None        # recorded findings (E0133 accessors, packed / union representation), see known_findings.json
    out = os.path.join(d, "cb%d.rs" % k)
    rc, so, se, _ = sh([build.BINDGEN, p] + flags + ["-o", out, "--"] + cargs, timeout=120, cpu=100, cwd=d)
    if rc != 0:
        return Verdict(HELD, cname, obs={"bindgen_errors_deferred_to_C12": 1})
    w = write(os.path.join(d, "cw%d.rs" % k), '#![allow(warnings)]\ninclude!("%s");\n' % out)
    rcr, sor, ser, _ = sh(["rustc", "--edition", "2021", "--crate-type", "lib", "--emit=metadata", "-o", os.path.join(d, "cw%d.rmeta" % k), w], timeout=300)
    if rcr == 0:
        return Verdict(HELD, cname, obs={"option_cluster_compiles": 1}, nontrivial=True, key=cname)
    return Verdict(VIOLATED, cname, "rustc rejects the bindings: " + first_errors(ser), files={"input." + ext: text, "flags.txt": " ".join(flags), "bindings.rs": open(out).read()},
                   signature=signature(ser, text, flags, None, "cluster:" + name))


def regression_cases():
    """Deterministic headers run on every invocation: every keyword of every edition in every identifier position, and the reproducers of
    the repaired C01 defects (fix commits 1e591667, b92fe2b5, 5c6ce921) — a regression there must not depend on what the sampler draws."""
    out = []
    words = [w for w in gen_names.RUST_WORDS if w not in ("true_", "false_")]
    c_ok = [w for w in words if w not in ("virtual", "final", "override")] + ["virtual", "final", "override"]     # all fine in C
    body = []
    for k, w in enumerate(c_ok):
        body.append("struct kw_s_%d { int %s; };" % (k, w))
        body.append("int kw_fn_%d(int %s);" % (k, w))
        body.append("extern int %s_;" % w if w in ("self", "Self", "crate", "super") else "")
    out.append(("kw-fields-params", "h", "\n".join(body) + "\n", []))
    out.append(("kw-bitfields", "h", "struct kw_bf { %s };\n" % " ".join("unsigned %s : 1;" % w for w in c_ok) +
                "struct kw_bf2 { %s };\n" % " ".join("int %s : 3; char pad_%d;" % (w, k) for k, w in enumerate(c_ok)), []))
    out.append(("kw-union-members", "h", "union kw_u { %s };\n" % " ".join("int %s;" % w for w in c_ok), []))
    out.append(("kw-fnptr-params", "h", "\n".join("typedef int (*kw_fp_%d)(int %s, char %s_);" % (k, w, w) for k, w in enumerate(c_ok)) + "\n", []))
    out.append(("kw-functions", "h", "\n".join("int %s(int a);" % w for w in c_ok if w not in ("Self",)) + "\n", []))
    out.append(("kw-variables", "h", "\n".join("extern int %s;" % w for w in c_ok) + "\n", []))
    out.append(("kw-types", "h", "\n".join("struct %s { int x; }; typedef struct %s %s_t;" % (w, w, w) for w in c_ok) + "\n", []))
    out.append(("kw-enumerators", "h", "enum kw_e { %s };\n" % ", ".join("%s" % w for w in c_ok), []))
    for style in ("rust", "newtype", "bitfield", "moduleconsts", "consts", "newtype_global"):
        out.append(("kw-enumerators-" + style, "h", "enum kw_e { %s };\nenum { %s };\n" % (", ".join("%s" % w for w in c_ok), ", ".join("A_%s" % w for w in c_ok[:6])),
                    ["--default-enum-style", style]))
    out.append(("kw-macros", "h", "\n".join("#define %s %d" % (w, k) for k, w in enumerate(c_ok) if w not in ("self", "Self", "crate", "super")) + "\n", []))
    # b92fe2b5: new_type alias styles and constants of non-typedef / typedef / typedef-of-typedef types
    consts = "typedef int td_t; typedef td_t td2_t; static const td_t A = 1; static const int B = 2; static const td2_t C = 3;\n#define M 5\nenum e { EA = 1 }; static const unsigned long long D = 7;\n"
    for st in ("new_type", "new_type_deref", "type_alias"):
        out.append(("alias-consts-" + st, "h", consts, ["--default-alias-style", st]))
    # 5c6ce921: arrays of records that hold a type-parameter array
    out.append(("array-of-tparam-array-holder", "hpp", "template <typename A> struct T0 { A arr[40]; };\nstruct C1 { T0<short> m1; };\nstruct C3 { C1 m1[2]; C1 m2[2][3]; };\n"
                "struct C4 { C1 m; };\ntypedef C1 C1arr[4];\nstruct C5 { C1arr a; };\n", []))
    # helper types (__BindgenBitfieldUnit, __IncompleteArrayField, __BindgenComplex, __BindgenOpaqueArray, __BindgenUnionField) needed ONLY by
    # items of a nested namespace: the helper lives in the root module and must still be emitted
    helpers_ = [("bitfield", "struct S { unsigned x : 3; int y : 5; }; namespace deep { struct T { unsigned long long z : 40; }; }"),
                ("fam", "struct F { int n; int data[]; }; struct Z { int k; char zero[0]; };"),
                ("complex", "struct Cx { double _Complex d; float _Complex f; };"),
                ("opaque-array", "struct OA { char c; long long ll __attribute__((aligned(16))); char d; };"),
                ("union", "union U { int i; float f; }; struct HU { union U u; union { char a; short b; }; };")]
    for hn, body in helpers_:
        for fl in ([], ["--enable-cxx-namespaces"]):
            out.append(("ns-helper-%s%s" % (hn, "-ns" if fl else ""), "hpp", "namespace only_here { %s }\nnamespace other { struct Plain { int a; }; }\n" % body, fl))
    # inline namespaces under every combination of the two namespace options: definitions and uses must agree on the path
    inl = ("namespace lib { inline namespace v2 { struct Config { int a; }; enum Mode { M_A, M_B }; typedef Config cfg_t; } struct User { Config c; v2::Config *p; Mode m; cfg_t t; };\n"
           " namespace deep { inline namespace v1 { struct D { v2::Config k; }; } D *get(); } }\ninline namespace top_inl { struct TI { int z; }; }\nstruct UsesTI { TI t; lib::User u; };\n")
    for fl in ([], ["--conservative-inline-namespaces"], ["--enable-cxx-namespaces"], ["--conservative-inline-namespaces", "--enable-cxx-namespaces"],
               ["--conservative-inline-namespaces", "--default-enum-style", "rust"], ["--disable-name-namespacing"]):
        out.append(("inline-ns-%d" % len(out), "hpp", inl, fl))
    out.append(("ns-helper-union-field", "hpp", "namespace only_here { union U { int i; float f; }; struct HU { union U u; }; }\n",
                ["--enable-cxx-namespaces", "--default-non-copy-union-style", "bindgen_wrapper", "--bindgen-wrapper-union", ".*"]))
    # unions emitted as structs of __BindgenUnionField<T> (no Rust union: --disable-untagged-union, or a member that is not Copy under the
    # wrapper style) at namespace depth 0, 1 and 2: the helper is named from inside the module
    wu = ("union W0 { int i; float f; };\nstruct NC { NC(const NC &); ~NC(); int x; };\nunion N0 { NC n; int i; N0(); ~N0(); };\n"
          "namespace d1 { union W1 { int i; double f; }; struct H1 { W1 w; }; union N1 { NC n; char c; N1(); ~N1(); };\n"
          " namespace d2 { union W2 { short s; long l; }; union N2 { NC n; long l; N2(); ~N2(); }; struct H2 { W2 w; N2 *p; }; } }\n")
    for k, fl in enumerate((["--disable-untagged-union"], ["--enable-cxx-namespaces", "--disable-untagged-union"], ["--enable-cxx-namespaces"],
                            ["--enable-cxx-namespaces", "--default-non-copy-union-style", "manually_drop"], ["--enable-cxx-namespaces", "--with-derive-default", "--impl-debug"])):
        out.append(("ns-wrapper-unions-%d" % k, "hpp", wu, fl))
    return out


def regression_case(chk, t):
    name, ext, text, flags = t
    d = chk.dir("reg-" + name)
    p = write(os.path.join(d, "r." + ext), text)
    out = os.path.join(d, "r.rs")
    cargs = ["-x", "c++", "-std=c++14"] if ext == "hpp" else []
    res = []
    for ed in ("2018", "2021", "2024"):
        fl = list(flags) + ["--rust-edition", ed] + (["--rust-target", "1.85"] if ed == "2024" else [])
        cname = "regression-%s-%s" % (name, ed)
        rc, so, se, _ = sh([build.BINDGEN, p] + fl + ["-o", out, "--"] + cargs, timeout=120, cpu=100, cwd=d)
        if rc != 0:
            res.append(Verdict(HELD, cname, obs={"bindgen_errors_deferred_to_C12": 1}) if not crashed(rc, se) else Verdict(HELD, cname, obs={"bindgen_crashes_deferred_to_C12": 1}))
            continue
        w = write(os.path.join(d, "w.rs"), '#![allow(warnings)]\ninclude!("%s");\n' % out)
        rcr, sor, ser, _ = sh(["rustc", "--edition", ed, "--crate-type", "lib", "--emit=metadata", "-o", os.path.join(d, "w.rmeta"), w], timeout=300)
        if rcr == 0:
            res.append(Verdict(HELD, cname, obs={"regression_headers_compiled": 1, "rustc_runs": 1}, nontrivial=True, key=cname))
        else:
            res.append(Verdict(VIOLATED, cname, "rustc (edition %s) rejects the bindings: %s" % (ed, first_errors(ser)),
                               files={"input." + ext: text, "flags.txt": " ".join(fl), "bindings.rs": open(out).read(), "rustc.txt": ser[-4000:]},
                               signature=signature(ser, text, fl, None, "regression:" + name)))
    return res


def run(chk):
    from .c12 import cluster_cases
    chk.map(lambda t: regression_case(chk, t), regression_cases(), budget_s=600)
    # (the odd-field clusters are C12's: unions with flexible members and --flexarray-dst need nightly features and are outside the compile oracle)
    chk.map(lambda kc: cluster_case(chk, kc[0], kc[1]), [kc for kc in enumerate(cluster_cases()) if not kc[1][0].startswith(("odd-", "annotated-"))], budget_s=600)      # (incl. annotated-replaces)
    chk.map(lambda i: gen_case(chk, i), range(chk.pick(450, 6000)), budget_s=chk.pick(500, 3000))
    return chk.finish(
        rule="case = (header, option set, edition): headers from the families {generated C type graphs, function/variable libraries, "
             "hostile-identifier headers (Rust keywords of all editions, primitive/prelude names, '_', '$', tag/ordinary collisions), generated "
             "C++ namespaces, hostile single constructs (C and C++), mutants of repository headers}, kept only if clang -fsyntax-only accepts; "
             "option sets sampled from a 70-group pool (documented 'will not compile alone' options excluded) x rust edition 2018/2021/2024; "
             "non-trivial = bindgen produced bindings and rustc (matching edition, metadata only) judged them; const layout assertions are "
             "evaluated by rustc at this point",
        assumptions=["rustc 1.95 on the host is the definition of valid Rust for every edition",
                     "bindgen crashes / rejections of accepted headers are C12's and only counted here"])
