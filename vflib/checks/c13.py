"""C13 — builder configuration and command-line flags round-trip to identical bindings."""
import json
import os

from .. import build, drv
from ..core import HELD, INCONCLUSIVE, VIOLATED, Verdict, write, sha
from ..core import run as sh

LEVEL = "exploration"

T_C = r'''
/** doc comment for Foo */
struct Foo { int a; float f; double big[40]; unsigned bf1 : 3; int bf2 : 5; char *p; };
typedef struct Foo foo_t;
typedef int my_int;
typedef my_int my_int2;
union Bar { int i; float f; struct Foo foo; };
struct WithAnon { struct { int x; union { int y; char z; }; }; int w; };
enum Color { RED = 1, GREEN = 2, BLUE = 4 };
enum { ANON_A = 3, ANON_B = -1 };
typedef enum { TD_A, TD_B } td_enum;
struct Fam { int n; int data[]; };
struct Packed { char c; int i; } __attribute__((packed));
struct Nested { struct Inner { int q; } in; enum Color c; td_enum t; struct Foo *next; };
#define M_INT 42
#define M_NEG -7
#define M_BIG 0x100000000
#define M_STR "hello"
#define M_FLT 1.5
extern int g_var;
extern const long g_const;
const int g_init = 7;
int fn_plain(int a, char b);
int fn_must(void) __attribute__((warn_unused_result));
void fn_arr(int arr[4], struct Foo foo, union Bar *bar);
unsigned long fn_size(unsigned long n);
typedef void (*callback_t)(int, void *);
void fn_cb(callback_t cb);
static inline int fn_static(int a) { return a + 1; }
struct Opaque;
struct Opaque *fn_opaque(void);
_Noreturn void fn_noret(void);
'''
T_CXX = r'''
namespace outer { namespace inner { struct S { int a; }; int nf(S s); } inline namespace v1 { int inl(); } }
class Base { public: virtual ~Base(); virtual int vm(int) = 0; int pub; protected: int prot; private: int priv; void privm(); };
class Derived : public Base { public: Derived(); Derived(int); ~Derived(); int vm(int) override; static int sm(); int operator+(int); inline int inlm() { return 1; } };
template <typename T> struct Tpl { T v; T *p; };
template <typename T, typename U> struct Tpl2 { T t; };
typedef Tpl<int> TplInt;
struct UsesTpl { Tpl<char> c; Tpl2<int, float> d; };
enum class Scoped : unsigned char { A, B };
extern char16_t c16;
int ref(int &r, const Base &b);
struct Deleted { Deleted() = delete; Deleted(const Deleted &) = delete; };
struct NonCopy { NonCopy(const NonCopy &); ~NonCopy(); int x; };
union NCU { NonCopy n; int i; NCU(); ~NCU(); };
'''

REGEXES = ["Foo", "foo_t", "Bar|Color", "fn_.*", "g_.*", ".*", "my_int.*", "Base", "Derived", "outer::inner::.*", "Tpl.*", "td_enum", "WithAnon", "NCU", "Nomatch", "Foo|x=y"]
TEXTS = ["plain", "with space", "a=b", "quote'\"s", "unié中", "x::y", "#[allow(dead_code)]", "-leading-dash", "--two", "tab\there"]
ENUMS = {
    "EnumVariation": ["consts", "moduleconsts", "bitfield", "newtype", "newtype_global", "rust", "rust_non_exhaustive"],
    "AliasVariation": ["type_alias", "new_type", "new_type_deref"],
    "MacroTypeVariation": ["signed", "unsigned"],
    "NonCopyUnionStyle": ["bindgen_wrapper", "manually_drop"],
    "Formatter": ["none", "rustfmt", "prettyplease"],
    "FieldVisibilityKind": ["private", "crate", "public"],
    "RustTarget": ["1.51", "1.64", "1.70", "1.77", "1.82", "1.85", "nightly"],
    "RustEdition": ["2018", "2021"],
    "Abi": ["C", "stdcall", "efiapi", "fastcall", "thiscall", "aapcs", "win64", "C-unwind", "system", "vectorcall"],
}
REGEX_METHODS_HINT = ("allowlist_", "blocklist_", "opaque_type", "_enum", "no_", "must_use_type", "type_alias", "new_type_alias",
                      "bindgen_wrapper_union", "manually_drop_union", "constified_enum")
SKIP = {"header", "headers", "header_contents", "clang_arg", "clang_args", "emit_clang_ast", "emit_ir", "emit_ir_graphviz", "emit_diagnostics",
        "time_phases", "with_rustfmt", "rustfmt_configuration_file", "depfile", "wrap_static_fns_path", "clang_macro_fallback",
        "clang_macro_fallback_build_dir", "rustfmt_bindings", "detect_include_paths", "emit_builtins"}


def samples_for(name, kinds, d):
    ks = kinds.split()
    if not ks:
        return [[]]
    if ks == ["bool"]:
        return [["true"], ["false"]]
    if ks == ["str"]:
        if any(h in name for h in REGEX_METHODS_HINT) and name not in ("no_convert_floats",):
            return [[r] for r in REGEXES]
        return [[t] for t in TEXTS]
    if ks == ["path"]:
        return [[os.path.join(d, "p_" + name)]]
    if ks == ["optpath"]:
        return [[os.path.join(d, "p_" + name)]]
    if ks == ["codegen"]:
        return [["functions"], ["types"], ["vars"], ["methods,constructors,destructors"], ["functions,types,vars"], [""]]
    if len(ks) == 1 and ks[0].startswith("enum:"):
        return [[v] for v in ENUMS[ks[0][5:]]]
    if name == "override_abi":
        # (patterns containing `=`: the flag is spelled REGEX=ABI and must be split at the LAST `=`)
        return [[a, r] for a in ENUMS["Abi"] for r in ("fn_plain", "fn_.*")][:20] + [["stdcall", "fn_plain|x=y"], ["C-unwind", "a=b|fn_.*"], ["win64", "=|fn_plain"]]
    if name == "module_raw_line":
        return [["root", "pub type X = u8;"], ["root::outer", "// c"]]
    if name == "field_attribute":
        return [["Foo", "a", "allow(dead_code)"], ["Bar", "i", "doc(hidden)"], ["Foo", "f", "doc = \"hello = world\""],
                ["Foo", "p", "cfg(feature = \"x\")"], ["WithAnon", "w", "deprecated = \"a=b=c\""]]
    if ks == ["str", "str"]:
        return [["a", "b"]]
    return None


def roundtrip(chk, d, idx, methods, header, cargs, default_hash):
    """methods: list of [name, args...]"""
    name = "cfg-%d-%s" % (idx, "+".join(m[0] for m in methods)[:60])
    base = [["header", header]] + [["clang_arg", a] for a in cargs]
    a_rs, b_rs, c_rs = (os.path.join(d, "%s%d.rs" % (x, idx)) for x in "abc")
    rc, res, err, _ = drv.drive({"jobs": [{"methods": base + methods, "emit_flags": True, "out": a_rs}]}, d, "a%d" % idx, timeout=120, cpu=100)
    spec = json.dumps(base + methods)
    files = {"methods.json": spec, "header" + os.path.splitext(header)[1]: open(header).read()}
    if rc is None or not res:
        return Verdict(INCONCLUSIVE, name, "driver A: rc=%s %s" % (rc, err[-300:]))
    ra = res["results"][0]
    if ra.get("stage") == "build":
        return Verdict(INCONCLUSIVE, name, "table error: " + str(ra.get("err")))
    f1 = ra.get("flags_out")
    obs = {"roundtrips": 1}
    if not ra.get("ok"):
        # configuration that does not generate (e.g. unsupported edition): flags must still round-trip
        obs["configs_not_generating"] = 1
    rc, res, err, _ = drv.drive({"jobs": [{"flags": f1, "emit_flags": True, "out": b_rs}]}, d, "b%d" % idx, timeout=120, cpu=100)
    files["flags1.json"] = json.dumps(f1)
    sig = None
    if any(len(m) > 1 and any(str(x).startswith("-") for x in m[1:]) for m in methods):
        sig = "c13.leading-dash-value"
    if ["default_enum_style", "newtype_global"] in methods or any(m[0] == "newtype_global_enum" for m in methods):
        pass
    if rc is None:
        return Verdict(INCONCLUSIVE, name, "driver B watchdog")
    if not res:
        return Verdict(VIOLATED, name, "flags printed by command_line_flags() are rejected by the flag parser (exit %s): %s\nflags: %s" % (
            rc, err[-400:], f1), files=files, obs=obs, signature=sig or classify_parse_failure(methods, err, f1))
    rb = res["results"][0]
    f2 = rb.get("flags_out")
    problems = []
    def split_overrides(fl):
        # --override-abi pairs are kept per ABI in a map: their relative order is not part of the configuration (what they select is
        # compared through the bindings below); everything else is compared as a list
        rest, ov, k = [], [], 0
        while k < len(fl):
            if fl[k] == "--override-abi" and k + 1 < len(fl):
                ov.append(fl[k + 1])
                k += 2
            else:
                rest.append(fl[k])
                k += 1
        return rest, sorted(ov)
    if f1 != f2:
        if f2 is not None and split_overrides(f1) == split_overrides(f2):
            obs["override_abi_pairs_reordered"] = 1
        else:
            problems.append("flags do not round-trip: %s -> %s" % (f1, f2))
    if ra.get("ok") != rb.get("ok") or ra.get("hash") != rb.get("hash"):
        problems.append("bindings of the original builder and of the builder parsed back from its flags differ (%s vs %s)" % (
            (ra.get("ok"), ra.get("hash"), ra.get("err_kind")), (rb.get("ok"), rb.get("hash"), rb.get("err_kind"))))
    # real CLI with the same flags
    rcc, so, se, _ = sh([build.BINDGEN] + f1[: f1.index("--")] + ["-o", c_rs] + f1[f1.index("--"):] if "--" in f1 else [build.BINDGEN] + f1 + ["-o", c_rs],
                        timeout=120, cpu=100, cwd=d)
    if ra.get("ok"):
        if rcc != 0:
            problems.append("CLI rejects or fails on the flags the builder printed (exit %s): %s" % (rcc, se[-300:]))
        elif open(c_rs, "rb").read() != open(a_rs, "rb").read():
            problems.append("CLI given the printed flags produces different bindings than the builder")
    elif rcc == 0:
        problems.append("builder fails to generate (%s) but the CLI succeeds with its flags" % ra.get("err_kind"))
    nontrivial = ra.get("ok") and ra.get("hash") != default_hash
    for f in (a_rs, b_rs, c_rs):
        try:
            os.unlink(f)
        except OSError:
            pass
    if problems:
        sig2 = sig or classify_diff(methods, problems)
        return Verdict(VIOLATED, name, "\n".join(problems)[:1500], files=files, obs=obs, signature=sig2)
    return Verdict(HELD, name, obs=obs, nontrivial=bool(nontrivial), key=spec + header,
                   sample={"methods": methods, "flags": f1[:12]} if idx % 97 == 0 else None)


def classify_parse_failure(methods, err, f1=()):
    names = [m[0] for m in methods]
    if "with_codegen_config" in names and any(m[0] == "with_codegen_config" and m[1] == "" for m in methods):
        return "c13.empty-codegen-config"
    # the empty set reached by combination (with_codegen_config("functions") + ignore_functions()) is printed the same way
    f1 = list(f1 or ())
    if any(f1[k] == "--generate" and f1[k + 1] == "" for k in range(len(f1) - 1)) and "Unknown codegen item kind" in err:
        return "c13.empty-codegen-config"
    return None


def classify_diff(methods, problems):
    ov = [(m[1], m[2]) for m in methods if m[0] == "override_abi" and len(m) >= 3]
    if len(set(a for a, _ in ov)) >= 2 and any("differ" in p_ or "different bindings" in p_ for p_ in problems) and not any("do not round-trip" in p_ for p_ in problems):
        # (all sampled patterns match `fn_plain`) two overrides with different ABIs for the same function: which one applies follows the
        # iteration order of the per-ABI map, and that order is not preserved by the round trip
        return "c13.ambiguous-override-abi-follows-map-order"
    for m in methods:
        if m[0] == "default_enum_style" and m[1:] == ["newtype_global"]:
            return "c13.newtype-global-default-style"
    return None


def run(chk):
    d = chk.dir("rt")
    hc = write(os.path.join(d, "t.h"), T_C)
    hx = write(os.path.join(d, "t.hpp"), T_CXX)
    rc, so, se, _ = sh([build.DRIVER, "--methods"], timeout=60)
    table = json.loads(so)
    methods = [(n, k) for n, k in table["methods"] if n not in SKIP]
    holes = list(table["holes"])
    headers = [(hc, []), (hx, ["-std=c++17"])]
    defaults = {}
    for h, ca in headers:
        rc, res, err, _ = drv.drive({"jobs": [{"methods": [["header", h]] + [["clang_arg", a] for a in ca]}]}, d, "def")
        defaults[h] = res["results"][0].get("hash") if res else None
    configs = []
    # (1) every single option in isolation, every enumerated value
    singles = []
    for n, k in methods:
        ss = samples_for(n, k, d)
        if ss is None:
            holes.append(n)
            continue
        for s in ss:
            singles.append([[n] + s])
    configs += singles
    # defaults agree: empty configuration
    configs.append([])
    # (2) pairs of boolean / no-arg options
    simple = [[n] + s for n, k in methods for s in (samples_for(n, k, d) or []) if k in ("", "bool") and (not s or s == ["true"] or n.startswith("derive_") or n in ("layout_tests", "prepend_enum_name", "size_t_is_usize", "generate_comments", "trust_clang_mangling", "allowlist_recursively"))]
    rng = chk.rng("pairs")
    pairs = [[a, b] for i, a in enumerate(simple) for b in simple[i + 1:] if a[0] != b[0]]
    rng.shuffle(pairs)
    configs += pairs[:chk.pick(150, 4000)]
    # (3) random configurations of up to 25 options
    flat = [c[0] for c in singles if not any(str(a).startswith("-") for a in c[0][1:]) and c[0] != ["with_codegen_config", ""]]
    for i in range(chk.pick(120, 3000)):
        r = chk.rng("rand", i)
        k = r.randint(2, 25)
        cfg = [list(x) for x in r.sample(flat, min(k, len(flat)))]
        configs.append(cfg)
    # (4) repeated values: the same value twice in a row for every valued option (multi-valued options keep both), A B A, and
    # the same value through two different options
    valued = [c[0] for c in singles if len(c[0]) > 1 and c[0][1] not in ("true", "false") and not any(str(a).startswith("-") for a in c[0][1:])]
    for v in valued:
        configs.append([list(v), list(v)])
    rr = chk.rng("repeats")
    byname = {}
    for v in valued:
        byname.setdefault(v[0], []).append(v)
    for n_, vs in byname.items():
        if len(vs) >= 2:
            a, b = rr.sample(vs, 2)
            configs.append([list(a), list(b), list(a)])
            configs.append([list(a), list(a), list(b), list(b)])
    chk.count("option_methods_in_table", len(methods))
    chk.count("option_methods_not_covered", len(holes) + len(SKIP))

    def one(t):
        idx, cfg = t
        r = chk.rng("hdr", idx)
        names = [m[0] for m in cfg]
        cxxish = any(n in ("enable_cxx_namespaces", "generate_inline_functions", "vtable_generation", "respect_cxx_access_specs",
                           "generate_private_functions", "generate_deleted_functions", "generate_pure_virtual_functions",
                           "use_distinct_char16_t", "represent_cxx_operators", "disable_name_namespacing", "conservative_inline_namespaces",
                           "ignore_methods", "use_specific_virtual_function_receiver", "generate_cxx_nonnull_references", "default_visibility",
                           "default_non_copy_union_style", "manually_drop_union", "bindgen_wrapper_union", "no_copy") for n in names)
        h, ca = headers[1] if (cxxish or r.random() < 0.3) else headers[0]
        return roundtrip(chk, d, idx, cfg, h, ca, defaults[h])
    chk.map(one, list(enumerate(configs)), budget_s=chk.pick(500, 3000))
    return chk.finish(
        rule="case = one builder configuration (list of Builder method calls recovered from options/mod.rs at run time) applied to a C or C++ "
             "trigger header: b1 -> command_line_flags() -> builder_from_flags (child process) -> flags', plus the real CLI on the printed flags; "
             "non-trivial = the configuration changes the bindings relative to the default. Families: every single option with every "
             "enumerated/sampled value, pairs of boolean options, random configurations of 2..25 options, every valued option given the same "
             "value twice in a row / A B A / A A B B.",
        coverage_extra={"methods_without_samples": sorted(set(holes)), "methods_skipped": sorted(SKIP)},
        assumptions=["builder methods are driven through a dispatcher generated from the signatures in options/mod.rs",
                     "methods with process-level side effects (emit_*, time_phases, rustfmt paths, depfile, header set) are exercised by other checks"])
