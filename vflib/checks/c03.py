"""C03 — bit-field getters, setters and constructors agree bit-for-bit with C.

(a) exhaustive sweep of bindgen's embedded `__BindgenBitfieldUnit` against a
    reference bit-vector model (native, all triples; Miri, boundary subset);
(b) generated records with bit-fields: C <-> Rust accessor differential with
    whole-object comparison (see vflib/htypes.py)."""
import re

from .. import build, miri
from ..core import HELD, INCONCLUSIVE, VIOLATED, Verdict
from ..core import run as sh

LEVEL = "exploration"
MIS = re.compile(r"MISMATCH entry=(\S+) n=(\d+) off=(\d+) width=(\d+) span_over_64=(\w+) val=(\S+) before=(\S+) got=(\S+) want=(\S+)")
SUM = re.compile(r"SUMMARY (.*)")


def parse(out):
    mism = [m.groups() for m in MIS.finditer(out)]
    s = SUM.search(out)
    summ = {}
    if s:
        for kv in s.group(1).split():
            k, _, v = kv.partition("=")
            summ[k] = int(v) if v.isdigit() else v
    return mism, summ


def sweep_verdicts(tag, rc, out, err):
    mism, summ = parse(out)
    if rc is None or not summ:
        return [Verdict(INCONCLUSIVE, tag, "sweep did not complete rc=%s err=%s" % (rc, err[-600:]))]
    vs = []
    otag = re.sub(r"-\d+$", "", tag)
    obs = {otag + "." + k: v for k, v in summ.items() if isinstance(v, int) and k not in ("seed", "const_table")}
    other = [m for m in mism if m[4] != "true"]
    over = summ.get("over64_violations", 0)
    nother = summ.get("violations", 0) - over
    vs.append(Verdict(HELD, tag, obs=obs, nontrivial=True, key=tag,
                      sample={"sweep": tag, "summary": summ}))
    if over:
        vs.append(Verdict(VIOLATED, tag + "-span-over-64",
                          "%d mismatches/panics on triples with width + offset%%8 > 64 (u64 accumulator)" % over,
                          signature="c03.unit-span-over-64", files={"vf-bf.out": out[:20000]}))
    if nother:
        seen = set()
        for m in other:
            key = (m[0], m[1], m[2], m[3])
            if key in seen:
                continue
            seen.add(key)
            if len(seen) > 20:
                break
            vs.append(Verdict(VIOLATED, "%s-%s-n%s-off%s-w%s" % (tag, m[0], m[1], m[2], m[3]),
                              "bitfield unit %s(storage=%s bytes, offset=%s, width=%s, val=%s) on %s gave %s, model says %s"
                              % (m[0], m[1], m[2], m[3], m[5], m[6], m[7], m[8]),
                              files={"vf-bf.out": out[:20000]},
                              sample={"entry": m[0], "n": m[1], "off": m[2], "width": m[3]}))
        if not other:
            vs.append(Verdict(VIOLATED, tag + "-unprinted", "%d mismatches (not printed)" % nother,
                              files={"vf-bf.out": out[:20000]}))
    if rc != 0 and not mism:
        vs.append(Verdict(INCONCLUSIVE, tag + "-rc", "exit %s: %s" % (rc, err[-800:])))
    return vs


def run_a(chk):
    # native: every triple
    rc, out, err, _ = sh([build.BF, "full", str(chk.seed)], timeout=600)
    for v in sweep_verdicts("native-full", rc, out, err):
        chk.add(v)
    # Miri: boundary subset, sharded over the cores
    nsh = 16
    shards = list(range(nsh)) if not chk.quick() else list(range(nsh))

    def one(sh):
        rc, out, err, _ = miri.miri_run("vf-bf", ["boundary", str(chk.seed), str(sh), str(nsh)])
        vs = sweep_verdicts("miri-boundary-%d" % sh, rc, out, err)
        if "Undefined Behavior" in err or "error: unsupported operation" in err:
            vs.append(Verdict(VIOLATED, "miri-ub-shard%d" % sh, "Miri reported: " + err[-1500:],
                              files={"miri.err": err[-20000:]}))
        return vs
    chk.map(one, shards)


def run(chk):
    run_a(chk)
    try:
        from . import c03b
        c03b.run_b(chk)
    except ImportError:
        chk.notes.append("part (b) generated records: not built yet")
    from . import c03c
    c03c.run_c(chk)
    return chk.finish(
        rule="(a) one case per sweep process: native sweep over every (storage size 1..16, bit offset, width 1..64) "
             "triple x {get,set,raw_get,raw_set[,4 const forms]} x 3 prefill patterns x 11 values, whole storage "
             "compared with a bit-vector model; Miri shards over boundary triples. (b) one case per generated record "
             "x option set; non-trivial = record has >=1 bit-field and both directions were exercised. (c) one case per generated C++ class "
             "template with bit-fields (clang reports no offsets there: bindgen computes the units itself): all 2^k extreme-value vectors "
             "(k<=6, else 48 sampled) + 12 random vectors x 2 fill patterns stored through setters and raw setters of R<c_int>, object bytes "
             "and getter values compared with a C++ program using R<int>. The numbers "
             "under 'observed' are the event counts the monitors actually compared.",
        assumptions=["reference bit-vector model: bit i of the field is bit offset+i of the little-endian byte array "
                     "(x86_64 host; big-endian paths are not executed)",
                     "clang 14 is the definition of C bit-field semantics for part (b)"])
