"""C02 — generated types match the C compiler's size, alignment, offsets,
member width/signedness and values, under every presentation option."""
import os

from .. import gen_ctypes as G
from .. import htypes, optsets
from ..core import HELD, INCONCLUSIVE, VIOLATED, Verdict, sha

LEVEL = "exploration"

CFG = dict(p_bitfield=0.12, bf_in_union=False, depth=3)
CFG_THOROUGH = dict(p_bitfield=0.12, bf_in_union=False, depth=5, n_records=(4, 10), n_fields=(1, 8))


def header_case(chk, i, cfg, n_opts, valgrind_every=0, prop_filter=None):
    rng = chk.rng("hdr", i)
    model = G.Gen(rng, cfg).generate()
    if max([G.scalar_count(r) for r in model.records] or [0]) > 400000:
        # objects of hundreds of MiB: the probe transcript would run into gigabytes; such models are not executed
        return Verdict(HELD, "h%d" % i, obs={"oversized_models_not_executed": 1})
    d = chk.dir("h%d" % i)
    hp = htypes.HeaderProbe(d, model)
    feats = G.features(model)
    shape = sha(*[G.shape_key(r) for r in model.records])[:12]
    nleaves = sum(len(G.leaves(r)) for r in model.records)
    out = []
    sets = optsets.sample(chk.rng("opts", i), n_opts, model=model)
    if any(isinstance(t, (G.RecordRef, G.Array)) for _, t in model.typedefs) is False and chk.rng("alias", i).random() < 0.3:
        sets.append(("alias-newtype", ["--default-alias-style", "new_type"]))
    for j, (oname, flags) in enumerate(sets):
        vg = bool(valgrind_every) and (i * 7 + j) % valgrind_every == 0
        res = hp.run_optset(oname, flags, valgrind=vg, layout_only=oname in optsets.LAYOUT_ONLY)
        probs = htypes.classify(res, oname, model)
        if prop_filter:
            probs = prop_filter(probs, res)
        case = "h%d-%s" % (i, oname)
        obs = dict(res.get("obs") or {})
        obs["bindgen_runs"] = 1
        obs["memcheck_runs"] = 1 if vg and res["status"] in ("ok",) else 0
        for k, v in feats.items():
            obs["feature." + k] = v if j == 0 else 0
        files = dict(hp.files())
        files.update(res.get("files", {}))
        sample = None
        if i < 2 and j == 0:
            sample = {"header": model.header()[:1500], "flags": flags, "observed": res.get("obs")}
        viol = [p for p in probs if p[0] == "violation"]
        inc = [p for p in probs if p[0] in ("inconclusive", "deferred-c01")]
        nontriv = nleaves >= 2 and res["status"] == "ok"
        if viol:
            # one verdict per distinct signature so that known findings and new violations are kept apart
            seen = set()
            for k, what, sig in viol:
                if sig in seen:
                    continue
                seen.add(sig)
                allw = "\n".join(w for _, w, s in viol if s == sig)[:3000]
                out.append(Verdict(VIOLATED, case, allw, files=files, obs={}, signature=sig))
            out.append(Verdict(HELD if not [v for v in viol if v[2] is None] else HELD, case + "-obs", obs=obs, nontrivial=nontriv,
                               key=(shape, oname), sample=sample))
        elif inc:
            out.append(Verdict(INCONCLUSIVE, case, inc[0][1][:600], obs=obs))
        else:
            out.append(Verdict(HELD, case, obs=obs, nontrivial=nontriv, key=(shape, oname), sample=sample))
    return out


def c02_filter(probs, res):
    # bit-field accessor semantics belong to C03 (its known findings are listed there)
    return [p for p in probs if not (p[2] or "").startswith("c03.")]


def record_layouts(d, hdr, names):
    """clang's record layouts (bits): name -> (size, datasize, align)"""
    import re
    from ..core import run as sh, write
    src = write(os.path.join(d, "lay.cpp"), '#include "%s"\n' % hdr + "".join('static_assert(sizeof(%s) > 0, "");\n' % n for n in names))
    rc, so, se, _ = sh(["clang++", "-std=c++14", "-fsyntax-only", "-w", "-Xclang", "-fdump-record-layouts-simple", src], timeout=60)
    out = {}
    for m in re.finditer(r"Type: (?:struct|class|union) ([^\n]+)\n\nLayout: <ASTRecordLayout\n\s*Size:(\d+)\n\s*DataSize:(\d+)\n\s*Alignment:(\d+)", so):
        out[m.group(1).strip()] = (int(m.group(2)), int(m.group(3)), int(m.group(4)))
    return out


CXX_OPTSETS = [("default", []), ("derives", ["--with-derive-default", "--with-derive-hash", "--with-derive-partialeq", "--with-derive-eq"]),
               ("namespaces", ["--enable-cxx-namespaces"]), ("explicit-padding", ["--explicit-padding"]), ("no-vtable-no-methods", ["--ignore-methods"]),
               ("vtable-generation", ["--vtable-generation"]), ("old-target", ["--rust-target", "1.70"]), ("opaque-by-default-off", ["--no-derive-copy"])]


def cxx_case(chk, i):
    """C++ class graphs (bases incl. multiple, vptr, virtual destructors, empty classes, templates instantiated with classes and builtins,
    bit-fields, arrays): bindgen's layout assertions carry clang's numbers and rustc evaluates them against the Rust layout."""
    import re
    from .. import build, gen_graph
    from ..core import run as sh, write
    rng = chk.rng("cxx", i)
    g = gen_graph.generate_mi(rng) if rng.random() < 0.35 else gen_graph.generate(rng, lang="cxx")
    orders, _ = gen_graph.valid_orders(g, rng, 1)
    d = chk.dir("x%d" % (i % 32))
    text = gen_graph.render(g, orders[0], hoist=rng.random() < 0.5)
    hdr = write(os.path.join(d, "g%d.hpp" % i), text)
    names = [c.name for c in g.classes() if c.kind == "class"]
    lay = None
    out = []
    for oname, flags in [CXX_OPTSETS[0]] + chk.rng("cxxopts", i).sample(CXX_OPTSETS[1:], chk.pick(1, 3)):
        cname = "cxx-%d-%s" % (i, oname)
        b = os.path.join(d, "b%d_%s.rs" % (i, oname))
        rc, so, se, _ = sh([build.BINDGEN, hdr] + flags + ["-o", b, "--", "-x", "c++", "-std=c++14"], timeout=120, cpu=100)
        if rc != 0:
            out.append(Verdict(INCONCLUSIVE, cname, "bindgen failed: " + se[-300:]))
            continue
        btext = open(b).read()
        rcr, sor, ser, _ = sh(["rustc", "--edition", "2021", "--crate-type", "lib", "--emit=metadata", "-A", "warnings", "-o", os.path.join(d, "m%d.rmeta" % i), b], timeout=180)
        nassert = len(re.findall(r'\["(?:Size|Alignment) of [^"]+"\]|\["Offset of field: [^"]+"\]', btext))
        obs = {"cxx_graphs_x_optsets": 1, "cxx_layout_assertions_evaluated": nassert, "cxx_classes": len(names),
               "cxx_classes_with_bases": sum(1 for c in g.classes() if c.bases), "cxx_virtual_classes": sum(1 for c in g.classes() if c.attrs.get("virtual"))}
        failing = sorted(set(re.findall(r'\["((?:Size|Alignment) of [^"]+|Offset of field: [^"]+)"\]', ser)))
        others = [m for m in re.findall(r"^error(?:\[E\d+\])?: ([^\n]*)", ser, re.M) if "aborting" not in m and "index out of bounds" not in m and "attempt to compute" not in m
                  and "evaluation of" not in m]
        files = {"header.hpp": text, "flags.txt": " ".join(flags), "bindings.rs": btext, "rustc.txt": ser[-3000:]}
        if failing:
            # recorded limitation: a derived class may re-use the tail padding of a base that is not POD for layout purposes; bindgen
            # embeds the base as a whole `_base` field.  Classified with clang's own record layouts (DataSize < Size somewhere below).
            if lay is None:
                lay = record_layouts(d, os.path.basename(hdr), names)

            def tail_padded(cn, depth=0):
                c = g.by_name(cn)
                if c is None or depth > 8:
                    return False
                for b_ in c.bases:
                    l_ = lay.get(b_)
                    if (l_ and l_[1] < l_[0]) or tail_padded(b_, depth + 1):
                        return True
                # by-value members / template arguments of tainted classes carry the wrong size along
                return any(tail_padded(x, depth + 1) for x in c.needs_complete if x != cn and g.by_name(x) is not None and g.by_name(x).kind == "class")
            owners = set()
            for a in failing:
                o_ = a.split(" of ", 1)[1].replace("field: ", "").split("::")[0].strip()
                owners.add(o_)
            def owner_ok(o_):
                if o_.startswith("template specialization: "):
                    return any(tail_padded(cn) for cn in names if re.search(r"_%s_" % re.escape(cn), o_ + "_"))
                return tail_padded(o_)
            sig = "c02.cxx-base-tail-padding-reuse" if owners and all(owner_ok(o_) for o_ in owners) else None
            if sig is None:
                # recorded: the Itanium ABI puts the primary base (the first DYNAMIC base) at offset 0 even when a non-dynamic base is
                # declared before it; bindgen lays bases out in declaration order
                def dynamic(cn, depth=0):
                    c = g.by_name(cn)
                    return bool(c) and depth < 8 and (bool(c.attrs.get("virtual")) or any(dynamic(b_, depth + 1) for b_ in c.bases))
                def reorder_tainted(cn, depth=0):
                    c = g.by_name(cn)
                    if c is None or depth > 8:
                        return False
                    if len(c.bases) >= 2 and not dynamic(c.bases[0]) and any(dynamic(b_) for b_ in c.bases[1:]):
                        return True
                    return any(reorder_tainted(x, depth + 1) for x in (set(c.needs_complete) | set(c.bases)) if x != cn)
                if owners and all((not o_.startswith("template specialization: ")) and (reorder_tainted(o_) or tail_padded(o_)) for o_ in owners) \
                        and any(reorder_tainted(o_) for o_ in owners):
                    sig = "c02.cxx-primary-base-not-first"
            if sig is None and oname == "explicit-padding":
                # recorded: --explicit-padding on empty C++ classes (`_address` byte + a padding byte) and inside class templates (padding computed
                # for one instantiation is baked into the generic struct); everything that holds such a type by value inherits the wrong size
                def ep_tainted(cn, depth=0):
                    c = g.by_name(cn)
                    if c is None or depth > 8:
                        return False
                    if c.kind == "template" or not [m_ for m_ in c.members if "(" not in m_ and not m_.startswith(("virtual", "~"))]:
                        return True
                    return any(ep_tainted(x, depth + 1) for x in (set(c.needs_complete) | set(c.bases)) if x != cn)
                if owners and all(o_.startswith("template specialization: ") or ep_tainted(o_) for o_ in owners):
                    sig = "c02.explicit-padding-empty-class-or-template"
            if sig is None and owners:
                # owners explained by DIFFERENT recorded findings in one header (an empty class under --explicit-padding next to a class with
                # re-ordered bases): every owner must be explained by one of them; the verdict carries the signature that explains most
                def sigs_of(o_):
                    r_ = []
                    if owner_ok(o_):
                        r_.append("c02.cxx-base-tail-padding-reuse")
                    if not o_.startswith("template specialization: ") and reorder_tainted(o_):
                        r_.append("c02.cxx-primary-base-not-first")
                    if oname == "explicit-padding" and (o_.startswith("template specialization: ") or ep_tainted(o_)):
                        r_.append("c02.explicit-padding-empty-class-or-template")
                    return r_
                per = {o_: sigs_of(o_) for o_ in owners}
                if all(per.values()):
                    cnt = {}
                    for v_ in per.values():
                        for x_ in v_:
                            cnt[x_] = cnt.get(x_, 0) + 1
                    sig = sorted(cnt, key=lambda x_: (-cnt[x_], x_))[0]
                    obs["cxx_cases_with_several_recorded_findings"] = 1
            out.append(Verdict(VIOLATED, cname, "layout assertions (clang's numbers) fail to evaluate against the Rust layout: %s" % failing[:8], files=files, obs=obs, signature=sig))
        elif rcr != 0:
            out.append(Verdict(HELD, cname, obs=dict(obs, cxx_compile_errors_deferred_to_C01=1)))
        else:
            out.append(Verdict(HELD, cname, obs=obs, nontrivial=nassert >= 4, key=cname))
    return out


LAYOUT_SNIPPETS = ["aligned_typedef_record", "alignas_member", "alignas_type_member", "aligned_noarg", "packed_enum", "pragma_pack_push_pop",
                   "pragma_pack_aligned_member", "ms_struct", "bitfield_bool_enum", "bitfield_only_zero", "bitfield_unnamed_wide", "bitfield_int128",
                   "bitfield_after_array", "long_double_members", "int128_alignment", "vector_member", "union_aligned_member", "union_packed",
                   "transparent_union", "nested_fam", "zero_len_middle", "empty_in_struct", "bool_array_2d", "wchar_members", "char16_32",
                   "anon_union_aligned", "anon_struct_packed", "aligned_array_member", "aligned_ptr_member", "struct_aligned_less",
                   "packed_aligned_nested", "enum_fixed_members", "atomic_members", "fnptr_aligned", "typedef_array_aligned",
                   "pack_only_zero_len_overaligned", "pack_fam_with_revealing_member", "pack_nested_records", "pack_bitfields_and_arrays",
                   "overaligned", "bitfield_big", "zero_size", "fam_nested", "nested_anon", "int128", "float128", "atomic"]
SNIPPET_OPTSETS = [("default", []), ("derives", ["--with-derive-default", "--with-derive-hash", "--with-derive-partialeq", "--with-derive-eq"]),
                   ("old-target", ["--rust-target", "1.70"]), ("no-copy", ["--no-derive-copy"]), ("core", ["--use-core", "--ctypes-prefix", "::core::ffi"])]


def snippet_case(chk, sn):
    """hand-written layout-hostile records (alignment carried by members / arrays / pointers, nested pragma pack, packed + zero-length
    arrays, ms_struct, vectors, __int128, ...): every layout assertion bindgen emits (clang's numbers) must evaluate against the Rust layout"""
    import re
    from .. import build, hostile
    from ..core import run as sh, write
    name, text = sn
    d = chk.dir("sn-" + name)
    hdr = write(os.path.join(d, "s.h"), text + "\n")
    out = []
    for oname, flags in SNIPPET_OPTSETS:
        cname = "layout-snippet-%s-%s" % (name, oname)
        b = os.path.join(d, "b_%s.rs" % oname)
        rc, so, se, _ = sh([build.BINDGEN, hdr] + flags + ["-o", b], timeout=120, cpu=100)
        if rc != 0:
            out.append(Verdict(INCONCLUSIVE, cname, "bindgen failed: " + se[-200:]))
            continue
        btext = open(b).read()
        rcr, sor, ser, _ = sh(["rustc", "--edition", "2021", "--crate-type", "lib", "--emit=metadata", "-A", "warnings", "-o", os.path.join(d, "m.rmeta"), b] if oname != "old-target" else
                              ["rustc", "--edition", "2021", "--test", "-A", "warnings", "-o", os.path.join(d, "t_%s" % oname), b], timeout=180)
        nassert = len(re.findall(r'\["(?:Size|Alignment) of [^"]+"\]|\["Offset of field: [^"]+"\]|assert_eq ?!', btext))
        obs = {"layout_snippets_x_optsets": 1, "snippet_layout_assertions": nassert}
        files = {"s.h": text, "flags.txt": " ".join(flags), "bindings.rs": btext, "rustc.txt": ser[-3000:]}
        failing = sorted(set(re.findall(r'\["((?:Size|Alignment) of [^"]+|Offset of field: [^"]+)"\]', ser)))
        if failing:
            out.append(Verdict(VIOLATED, cname, "layout assertions (clang's numbers) fail to evaluate against the Rust layout: %s" % failing[:8], files=files, obs=obs))
            continue
        if rcr != 0:
            out.append(Verdict(HELD, cname, obs=dict(obs, snippet_compile_errors_deferred_to_C01=1)))
            continue
        if oname == "old-target":
            # below the offset_of! gate the assertions are #[test] functions: run them
            rct, sot, set_, _ = sh([os.path.join(d, "t_%s" % oname)], timeout=120)
            obs["snippet_test_binaries_run"] = 1
            if rct != 0:
                out.append(Verdict(VIOLATED, cname, "generated layout #[test] functions fail: %s" % (sot + set_)[-600:], files=files, obs=obs))
                continue
        out.append(Verdict(HELD, cname, obs=obs, nontrivial=nassert >= 2, key=cname))
    return out


def finding_repro_case(chk):
    """hand-built reproducer of the recorded finding hole-before-anonymous-member (kept so that the finding is re-observed on every run)"""
    m = G.Model()
    r = G.Record("struct", "HA")
    u = G.Record("union", None)
    u.fields = [G.Field("m8", G.Array(G.Scalar("unsigned char", "int", False, 8), [6])), G.Field("m9", G.Array(G.Scalar("float", "float", True, 32), [2]))]
    r.fields = [G.Field("m6", G.Scalar("unsigned char", "int", False, 8)), G.Field(None, G.Scalar("unsigned long long", "int", False, 64), bits=0), G.Field(None, None, inline=u)]
    m.records.append(r)
    m.decls.append(r)
    hp = htypes.HeaderProbe(chk.dir("repro-ha"), m)
    res = hp.run_optset("r", [])
    probs = [p for p in htypes.classify(res, "r", m) if p[0] == "violation"]
    if probs:
        return Verdict(VIOLATED, "repro-hole-before-anonymous-member", "\n".join(p[1] for p in probs[:4]), files=dict(hp.files()), signature=probs[0][2])
    return Verdict(HELD, "repro-hole-before-anonymous-member", obs=res.get("obs") or {})


def fixed_model_cases():
    """hand-built records run through the full C<->Rust probe on every invocation: shapes whose size / alignment survive a misplaced member
    (so bindgen's own assertions stay quiet) — anonymous members inside pragma-pack records that bindgen treats as packed(N)"""
    def sc(c, signed, bits, kind="int"):
        return G.Scalar(c, kind, signed, bits)
    ch, sh_, it, ll = sc("char", True, 8), sc("short", True, 16), sc("int", True, 32), sc("long long", True, 64)
    out = []

    def anon(kw, fields):
        r_ = G.Record(kw, None)
        r_.fields = fields
        return G.Field(None, None, inline=r_)

    def model(name, fields, pragma):
        m_ = G.Model()
        r_ = G.Record("struct", name)
        r_.fields = fields
        r_.pragma_pack = pragma
        m_.records.append(r_)
        m_.decls.append(r_)
        return m_
    out.append(("fixed-pack4-anon-struct", model("FP1", [G.Field("c", ch), anon("struct", [G.Field("lo", ch), G.Field("hi", ch)]), G.Field("x", it), G.Field("big", ll)], 4)))
    out.append(("fixed-pack2-anon-union", model("FP2", [G.Field("s", sh_), G.Field("c", ch), anon("union", [G.Field("a", ch), G.Field("b", G.Array(ch, [3]))]), G.Field("x", it)], 2)))
    out.append(("fixed-pack4-anon-nested", model("FP4", [G.Field("a", ch), G.Field("b", ch), G.Field("c", ch), anon("struct", [G.Field("p", ch), anon("union", [G.Field("u1", ch), G.Field("u2", sh_)])]),
                                                        G.Field("w", ll)], 4)))
    return out


def fixed_model_case(chk, t):
    name, m = t
    hp = htypes.HeaderProbe(chk.dir(name), m)
    out = []
    for oname, flags in (("default", []), ("derives", ["--with-derive-default", "--with-derive-partialeq"])):
        res = hp.run_optset(oname, flags)
        probs = htypes.classify(res, oname, m)
        viol = [p for p in probs if p[0] == "violation"]
        inc = [p for p in probs if p[0] in ("inconclusive", "deferred-c01")]
        cname = "%s-%s" % (name, oname)
        if viol:
            files = dict(hp.files())
            files.update(res.get("files", {}))
            out.append(Verdict(VIOLATED, cname, "\n".join(p[1] for p in viol[:6]), files=files, signature=viol[0][2]))
        elif inc:
            out.append(Verdict(INCONCLUSIVE, cname, inc[0][1][:400]))
        else:
            out.append(Verdict(HELD, cname, obs=res.get("obs") or {}, nontrivial=True, key=cname))
    return out


def run(chk):
    from .. import hostile
    chk.add(finding_repro_case(chk))
    chk.map(lambda t: fixed_model_case(chk, t), fixed_model_cases())
    sn = [s_ for s_ in hostile.C if s_[0] in LAYOUT_SNIPPETS]
    chk.map(lambda s_: snippet_case(chk, s_), sn, budget_s=600)
    chk.map(lambda i: cxx_case(chk, i), range(chk.pick(40, 400)), budget_s=chk.pick(200, 1200))
    n = chk.pick(48, 400)
    n_opts = chk.pick(5, 10)
    cfg = CFG if chk.quick() else CFG_THOROUGH
    vg = chk.pick(0, 10)
    chk.map(lambda i: header_case(chk, i, cfg, n_opts, vg, c02_filter), range(n), budget_s=chk.pick(600, 3000))
    return chk.finish(
        rule="case = (generated C header, presentation option set); distinct = (structural hash of all records, option set); "
             "non-trivial = the header has >= 2 member paths and the C+Rust probe executable ran to completion, so sizes, "
             "alignments, offsets, member kinds/widths/signedness and values in both directions were actually compared "
             "(counts under 'observed'). C++ case = (generated class graph: single and multiple bases, vptr, virtual destructors, templates "
             "instantiated with classes and builtins, bit-fields, arrays; option set): every size / alignment / offset assertion bindgen emits "
             "(clang's numbers) is evaluated by rustc against the Rust layout.",
        assumptions=["clang 14 (host x86_64) defines the C layout and values; rustc 1.95 defines the Rust layout",
                     "probe reads/writes members through raw pointers (read_unaligned/write_unaligned) and bindgen's accessors only",
                     "bit-fields inside unions are not generated by default (known finding C03 union-bitfield-unit)"])
