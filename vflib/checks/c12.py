"""C12 — generation always ends with bindings or an error value, never a panic."""
import os
import re
import stat

from .. import build, corpus, drv, gen_funcs, hostile, mutate
from .. import gen_ctypes as G
from ..core import HELD, INCONCLUSIVE, VIOLATED, Verdict, write
from ..core import run as sh

LEVEL = "exploration"
CPU_LIMIT = 120


def panic_signature(err):
    """file + normalised message of the first panic: identifies the panic *site*, not the input."""
    m = re.search(r"panicked at ([^\n:]+):\d+:\d+:\n([^\n]*)", err)
    if not m:
        return None
    f = m.group(1)
    msg = m.group(2)
    if "core/src/num" in f and ("divide by zero" in msg or "remainder with a divisor of zero" in msg):
        return "c12.cexpr-div-zero"
    if f.endswith("codegen/mod.rs") and "--no-size_t-is-usize" in msg:
        return "c12.size_t-assert"
    m2 = re.search(r"panicked at ([^\n:]+):\d+:\d+:\n(.*?)(?:\nnote: run with|\nstack backtrace|\Z)", err, re.S)
    full = m2.group(2) if m2 else msg
    if f.endswith("ir/context.rs") and msg.startswith("Non floating-type complex?"):
        return "c12.panic:bindgen/ir/context.rs:Non floating-type complex?"         # (`_Complex int`, `_Complex long`, ...: one site)
    if f.endswith("ir/context.rs") and "is not a valid Ident" in full:
        return 'c12.panic:bindgen/ir/context.rs:"…" is not a valid Ident'
    if "/rustc/" in f or "/.cargo/" in f or f.startswith("/"):
        f = "ext:" + "/".join(f.split("/")[-2:])
    msg = re.sub(r'"[^"]*"', '"…"', msg)
    msg = re.sub(r"`[^`]*`", "`…`", msg)
    msg = re.sub(r"\d+", "N", msg)
    return ("c12.panic:%s:%s" % (f, msg))[:120]


def crashed(rc, err):
    """Returns description if the process panicked / aborted / was signalled."""
    if "panicked at" in err or "fatal runtime error" in err or "stack overflow" in err:
        return "panic/abort: " + err[err.find("panicked at"):][:500] if "panicked at" in err else err[-500:]
    if rc is not None and (rc < 0 or rc in (101, 134, 139)):
        return "terminated abnormally rc=%s: %s" % (rc, err[-300:])
    return None


def classify_clang(path, cargs, d):
    rc, so, se, _ = sh(["clang", "-fsyntax-only", "-ferror-limit=0"] + list(cargs) + [path], timeout=120, cwd=d)
    if rc is None:
        return None
    return rc == 0 and " error: " not in se and not se.startswith("error:")


def run_bindgen(path, flags, cargs, d, tag, env=None):
    out = os.path.join(d, tag + ".rs")
    try:
        os.unlink(out)
    except OSError:
        pass
    cmd = [build.BINDGEN, path] + list(flags) + ["-o", out, "--"] + list(cargs)
    rc, so, se, info = sh(cmd, timeout=600, cpu=CPU_LIMIT, cwd=d, env=env)
    return rc, out, se, cmd, info


def judge(name, accepted, rc, out, se, cmd, text, obs, nontrivial_key=None):
    hdr = [c for c in cmd if c.endswith((".h", ".hpp"))]
    ext = os.path.splitext(hdr[0])[1] if hdr else ".h"
    files = {"input" + ext: text if text is not None else "", "cmd.txt": " ".join(cmd), "stderr.txt": se[-4000:]}
    if rc is None:
        return Verdict(INCONCLUSIVE, name, "wall-clock watchdog", obs=obs)
    c = crashed(rc, se)
    if c:
        if rc in (-24, 152) or "CPU time limit" in se:
            return Verdict(VIOLATED, name, "generation exceeded the CPU bound of %ds" % CPU_LIMIT, files=files, obs=obs)
        return Verdict(VIOLATED, name, c, files=files, obs=obs, signature=panic_signature(se))
    if rc == -24:
        return Verdict(VIOLATED, name, "CPU limit", files=files, obs=obs)
    has_out = os.path.exists(out) and os.path.getsize(out) > 0
    if accepted is True:
        if rc != 0:
            if re.search(r"\berror:", se) or "clang diagnosed error" in se:
                # clang CLI and libclang disagree about this input: classification unreliable
                obs["clang_cli_vs_libclang_disagree"] = 1
                return Verdict(HELD, name, obs=obs)
            return Verdict(VIOLATED, name, "clang accepts the header but bindgen exits %s without a clang diagnostic: %s" % (rc, se[-400:]), files=files, obs=obs)
        if not has_out:
            return Verdict(VIOLATED, name, "exit 0 but no bindings written", files=files, obs=obs)
        obs["accepted_ok"] = 1
    elif accepted is False:
        if rc == 0:
            obs["clang_cli_vs_libclang_disagree"] = 1
            return Verdict(HELD, name, obs=obs)
        if has_out:
            return Verdict(VIOLATED, name, "clang rejects the header, bindgen exits %s but left bindings behind" % rc, files=files, obs=obs)
        if not re.search(r"error|fatal", se):
            return Verdict(VIOLATED, name, "clang rejects the header but bindgen's error carries no diagnostic: %s" % se[-300:], files=files, obs=obs)
        obs["rejected_ok"] = 1
    return Verdict(HELD, name, obs=obs, nontrivial=True, key=nontrivial_key or name)


FLAG_POOL = [
    ["--with-derive-default", "--with-derive-hash", "--with-derive-partialeq", "--with-derive-eq", "--with-derive-ord", "--with-derive-partialord"],
    ["--impl-debug", "--impl-partialeq"], ["--default-enum-style", "rust"], ["--default-enum-style", "newtype"],
    ["--default-enum-style", "moduleconsts"], ["--default-enum-style", "bitfield"], ["--default-alias-style", "new_type"],
    ["--default-alias-style", "new_type_deref"], ["--enable-cxx-namespaces"], ["--explicit-padding"], ["--no-layout-tests"],
    ["--generate-inline-functions"], ["--merge-extern-blocks", "--sort-semantically"], ["--c-naming"], ["--use-core"],
    ["--rust-target", "1.64"], ["--rust-target", "1.85", "--rust-edition", "2024"], ["--wrap-unsafe-ops"], ["--generate-cstr"],
    ["--no-derive-copy", "--no-derive-debug"], ["--default-non-copy-union-style", "manually_drop"], ["--opaque-type", ".*"],
    ["--blocklist-type", ".*[0-9]"], ["--allowlist-type", ".*1.*"], ["--allowlist-function", ".*"], ["--no-recursive-allowlist", "--allowlist-type", ".*"],
    ["--generate", "types"], ["--generate", "functions,vars"], ["--ignore-functions"], ["--ignore-methods"], ["--no-prepend-enum-name"],
    ["--translate-enum-integer-types"], ["--fit-macro-constant-types"], ["--default-macro-constant-type", "signed"],
    ["--flexarray-dst", "--rust-target", "nightly"], ["--conservative-inline-namespaces"], ["--disable-name-namespacing"],
    ["--disable-nested-struct-naming"], ["--disable-untagged-union"], ["--emit-builtins"], ["--no-doc-comments"],
    ["--enable-function-attribute-detection"], ["--vtable-generation"], ["--generate-deleted-functions", "--generate-private-functions", "--generate-pure-virtual-functions"],
    ["--use-array-pointers-in-arguments"], ["--anon-fields-prefix", "an_"], ["--ctypes-prefix", "cty"], ["--no-size_t-is-usize"],
    ["--respect-cxx-access-specs"], ["--default-visibility", "private"], ["--time-phases"], ["--objc-extern-crate"],
    ["--with-attribute-custom", ".*=#[doc(hidden)]"], ["--with-derive-custom", ".*=Clone"], ["--must-use-type", ".*"],
    ["--dynamic-loading", "Lib"], ["--dynamic-loading", "Lib", "--dynamic-link-require-all"], ["--experimental", "--wrap-static-fns"],
    ["--clang-macro-fallback"], ["--no-convert-floats"], ["--distrust-clang-mangling"], ["--bitfield-enum", ".*"], ["--rustified-enum", ".*"],
    ["--rustified-non-exhaustive-enum", ".*"], ["--constified-enum-module", ".*"], ["--newtype-global-enum", ".*"], ["--new-type-alias", ".*"],
    ["--no-partialeq", ".*"], ["--no-copy", ".*"], ["--no-debug", ".*"], ["--no-default", ".*"], ["--no-hash", ".*"], ["--override-abi", ".*=C-unwind"],
]


def sample_flags(rng, k=None):
    k = rng.randint(0, 4) if k is None else k
    out = []
    for grp in rng.sample(FLAG_POOL, k):
        out += grp
    return out


def mutant_case(chk, i, donors):
    rng = chk.rng("mut", i)
    d = chk.dir("m%d" % (i % 64))
    ents = corpus.entries()
    e = ents[rng.randrange(len(ents))]
    text = open(e[0], errors="replace").read()
    ops = []
    for _ in range(rng.choice([1, 1, 1, 2, 3])):
        text, op = mutate.mutate(text, rng, donors)
        ops.append(op)
    ext = os.path.splitext(e[0])[1]
    p = write(os.path.join(d, "m%d%s" % (i, ext)), text)
    cargs = ["-I", corpus.HEADERS] + [a for a in e[2]]
    flags = [f for f in e[1]] + (sample_flags(rng, rng.choice([0, 0, 1, 2])))
    if "--represent-cxx-operators" in flags:
        flags = [f for f in flags if f != "--represent-cxx-operators"]
    acc = classify_clang(p, cargs, d)
    rc, out, se, cmd, info = run_bindgen(p, flags, cargs, d, "m%d" % i)
    obs = {"mutants": 1, "mutants_accepted": 1 if acc else 0, "cpu_bound_checked": 1}
    v = judge("mutant-%d-%s" % (i, "+".join(ops)), acc, rc, out, se, cmd, text, obs, nontrivial_key=("mut", i))
    for f in (p, out):
        try:
            os.unlink(f)
        except OSError:
            pass
    return v


def snippet_cases(chk):
    cases = []
    for lang, lst in (("c", hostile.C), ("cxx", hostile.CXX)):
        for name, text in lst:
            cases.append((lang, name, text))
    return cases


def snippet_case(chk, case, j):
    lang, name, text = case
    rng = chk.rng("snip", name, j)
    d = chk.dir("s%d" % (hash(name) % 32))
    lst = hostile.C if lang == "c" else hostile.CXX
    parts = [text]
    if j >= 1:
        parts.append(rng.choice(lst)[1])
    if j >= 2:
        # spliced into a generated program
        body = gen_funcs.gen_c(rng, 8)[0] if lang == "c" else gen_funcs.gen_cxx(rng, 8)
        lines = body.split("\n")
        k = rng.randrange(len(lines) + 1)
        parts = ["\n".join(lines[:k])] + parts + ["\n".join(lines[k:])]
        if lang == "cxx":
            # keep braces balanced: put snippets in front instead
            parts = parts[1:-1] + [body]
    src = "\n".join(parts) + "\n"
    p = write(os.path.join(d, "%s_%d.%s" % (name, j, "h" if lang == "c" else "hpp")), src)
    cargs = [] if lang == "c" else ["-std=c++%s" % rng.choice(["14", "17", "20"])]
    flags = sample_flags(rng) if j else []
    acc = classify_clang(p, cargs, d)
    rc, out, se, cmd, info = run_bindgen(p, flags, cargs, d, "%s_%d" % (name, j))
    obs = {"hostile_snippets": 1, "hostile_accepted": 1 if acc else 0}
    return judge("snippet-%s-%d" % (name, j), acc, rc, out, se, cmd, src, obs)


def deep_cases():
    cs = []
    def nest(depth):
        s = ""
        for i in range(depth):
            s += "struct D%d { " % i
        s += "int x;"
        for i in reversed(range(depth)):
            s += " } m%d;" % i
        return s + "\n"
    for depth in (12, 20):
        cs.append(("deep-struct-%d" % depth, "h", nest(depth)))
    cs.append(("deep-struct-repro-60", "h", nest(60)))
    for depth in (50, 120, 200):
        cs.append(("deep-pointer-%d" % depth, "h", "extern int %sp;\nvoid f(char %s);\n" % ("*" * depth, "*" * depth)))
        cs.append(("deep-array-%d" % depth, "h", "extern char a%s;\n" % ("[1]" * depth)))
        cs.append(("deep-paren-macro-%d" % depth, "h", "#define P %s1%s\n" % ("(" * depth, ")" * depth)))
        t = "int"
        for i in range(min(depth, 60)):
            t = "%s (*)(%s)" % ("int" if i % 2 else "void", t)
        cs.append(("deep-fnptr-%d" % depth, "h", "typedef %s;\n" % t.replace("(*)", "(*T)", 1)))
        ns = "".join("namespace n%d { " % i for i in range(depth)) + "int x;" + "}" * depth
        cs.append(("deep-namespace-%d" % depth, "hpp", ns + "\n"))
        tpl = "template <typename T> struct W { T v; };\nextern " + "W<" * min(depth, 150) + "int" + ">" * min(depth, 150) + " w;\n"
        cs.append(("deep-template-%d" % depth, "hpp", tpl))
    cs.append(("large-10k-functions", "h", "".join("int f%d(int, char *);\n" % i for i in range(10000))))
    cs.append(("large-5k-members", "h", "struct big { " + "".join("int m%d; " % i for i in range(5000)) + "};\n"))
    cs.append(("large-string-macro", "h", "#define S \"%s\"\n" % ("x" * 65000)))
    cs.append(("large-enum", "h", "enum big { " + ", ".join("E%d" % i for i in range(5000)) + " };\n"))
    cs.append(("large-bitfields", "h", "struct bf { " + "".join("unsigned b%d : %d; " % (i, 1 + i % 31) for i in range(800)) + "};\n"))
    return cs


def deep_case(chk, case):
    name, ext, text = case
    d = chk.dir("deep")
    p = write(os.path.join(d, name + "." + ext), text)
    cargs = ["-fbracket-depth=1024"] + ([] if ext == "h" else ["-std=c++17", "-ftemplate-depth=2048"])
    acc = classify_clang(p, cargs, d)
    if name == "deep-struct-repro-60":
        # recorded finding: cost doubles per nesting level (depth 24: 1.4 s, depth 32: > 100 s); use a short bound for the reproducer
        cmd = [build.BINDGEN, p, "-o", os.path.join(d, name + ".rs")]
        rc, so, se, info = sh(cmd, timeout=120, cpu=12, cwd=d)
        if rc in (-24, -9, 137, 152) or rc is None:
            return Verdict(VIOLATED, name, "struct nesting depth 60 did not finish within 12 s of CPU (cost doubles per level)",
                           signature="c12.deep-struct-exponential", files={"input": text})
        return Verdict(HELD, name, obs={"deep_or_large_inputs": 1})
    rc, out, se, cmd, info = run_bindgen(p, ["--with-derive-default", "--with-derive-hash"], cargs, d, name)
    return judge(name, acc, rc, out, se, cmd, text[:4000], {"deep_or_large_inputs": 1})


def fs_fault_cases(chk):
    """(name, setup(d) -> (flags incl. header), expected err_kind via library, expect_cli_rc_nonzero)"""
    d = chk.dir("fs")
    good = write(os.path.join(d, "good.h"), "int ok(int);\n")
    cases = []
    cases.append(("missing-file", {"flags": [os.path.join(d, "nope.h")]}, "NotExist"))
    os.makedirs(os.path.join(d, "adir.h"), exist_ok=True)
    cases.append(("directory-as-header", {"flags": [os.path.join(d, "adir.h")]}, "FolderAsHeader"))
    try:
        os.symlink(os.path.join(d, "gone.h"), os.path.join(d, "dangling.h"))
    except OSError:
        pass
    cases.append(("dangling-symlink", {"flags": [os.path.join(d, "dangling.h")]}, "NotExist"))
    noread = write(os.path.join(d, "noread.h"), "int x;\n")
    os.chmod(noread, 0)
    cases.append(("mode-000", {"flags": [noread]}, "InsufficientPermissions"))
    cases.append(("empty-file", {"flags": [write(os.path.join(d, "empty.h"), "")]}, "ok"))
    cases.append(("nul-bytes", {"flags": [write(os.path.join(d, "nul.h"), b"int a;\x00\x00int b;\n")]}, "any"))
    cases.append(("binary-garbage", {"flags": [write(os.path.join(d, "bin.h"), bytes(range(256)) * 20)]}, "ClangDiagnostic"))
    cases.append(("crlf-bom", {"flags": [write(os.path.join(d, "bom.h"), b"\xef\xbb\xbfint a;\r\nstruct s { int b; };\r\n")]}, "ok"))
    cases.append(("missing-include", {"flags": [write(os.path.join(d, "minc.h"), "#include \"does_not_exist.h\"\nint a;\n")]}, "ClangDiagnostic"))
    write(os.path.join(d, "cyc_a.h"), "#include \"cyc_b.h\"\nint a;\n")
    write(os.path.join(d, "cyc_b.h"), "#include \"cyc_a.h\"\nint b;\n")
    cases.append(("include-cycle", {"flags": [os.path.join(d, "cyc_a.h")]}, "ClangDiagnostic"))
    cases.append(("unsupported-edition", {"flags": [good, "--rust-target", "1.60", "--rust-edition", "2024"]}, "UnsupportedEdition"))
    cases.append(("unsupported-edition-2021", {"flags": [good, "--rust-target", "1.51", "--rust-edition", "2021"]}, "UnsupportedEdition"))
    cases.append(("syntax-error", {"flags": [write(os.path.join(d, "syn.h"), "int a = ;\nstruct {\n")]}, "ClangDiagnostic"))
    cases.append(("error-directive", {"flags": [write(os.path.join(d, "errd.h"), "#error stop here\nint a;\n")]}, "ClangDiagnostic"))
    return d, good, cases


def fs_case(chk, d, case):
    name, job, expect = case
    rc, res, err, _ = drv.drive({"mode": "jobs", "jobs": [dict(job)]}, d, "fs-" + name, timeout=120, cpu=100)
    obs = {"fault_cases": 1}
    files = {"job.json": str(job), "stderr.txt": err[-2000:]}
    if rc is None:
        return Verdict(INCONCLUSIVE, "fs-" + name, "watchdog")
    if rc != 0 or not res:
        return Verdict(VIOLATED, "fs-" + name, "library call did not return (process rc=%s): %s" % (rc, err[-500:]), files=files,
                       signature=panic_signature(err))
    r = res["results"][0]
    if r.get("stage") == "panic":
        return Verdict(VIOLATED, "fs-" + name, "Builder::generate panicked: %s %s" % (r.get("err"), err[-300:]), files=files,
                       signature=panic_signature(err))
    got = "ok" if r.get("ok") else r.get("err_kind")
    if expect != "any" and got != expect:
        return Verdict(VIOLATED, "fs-" + name, "expected %s, library returned %s (%s)" % (expect, got, r.get("err", "")[:200]), files=files, obs=obs)
    if got == "ClangDiagnostic" and not re.search(r"error|fatal", r.get("err", "")):
        return Verdict(VIOLATED, "fs-" + name, "ClangDiagnostic error carries no diagnostic text: %r" % r.get("err", "")[:200], files=files)
    obs["typed_errors_checked"] = 1
    return Verdict(HELD, "fs-" + name, obs=obs, nontrivial=True, key="fs-" + name, sample={"fault": name, "result": got} if name == "mode-000" else None)


def cli_fs_cases(chk, d, good):
    """Output-side faults through the CLI."""
    out = []
    ro = os.path.join(d, "ro")
    os.makedirs(ro, exist_ok=True)
    os.chmod(ro, stat.S_IRUSR | stat.S_IXUSR)
    specs = [
        ("out-missing-dir", [good, "-o", os.path.join(d, "no/such/dir/o.rs")]),
        ("out-unwritable-dir", [good, "-o", os.path.join(ro, "o.rs")]),
        ("depfile-unwritable", [good, "-o", os.path.join(d, "o1.rs"), "--depfile", os.path.join(ro, "o.d")]),
        ("depfile-missing-dir", [good, "-o", os.path.join(d, "o2.rs"), "--depfile", os.path.join(d, "no/dir/o.d")]),
        ("wrapper-unwritable", [write(os.path.join(d, "st.h"), "static inline int s(int a) { return a; }\n"), "--experimental", "--wrap-static-fns",
                                "--wrap-static-fns-path", os.path.join(ro, "w"), "-o", os.path.join(d, "o3.rs")]),
        ("bad-flag", [good, "--no-such-flag"]),
        ("bad-regex", [good, "--allowlist-type", "(unclosed"]),
        ("bad-enum-style", [good, "--default-enum-style", "nope"]),
        ("bad-target", [good, "--rust-target", "2.0"]),
        ("no-header", []),
        ("header-deleted-between-runs", None),
    ]
    if os.geteuid() == 0:
        # root ignores directory permissions: those three cases cannot fault here
        specs = [s for s in specs if s[0] not in ("out-unwritable-dir", "depfile-unwritable", "wrapper-unwritable")]
        chk.notes.append("running as root: unwritable-directory faults skipped (permissions not enforced)")
    for name, args in specs:
        if args is None:
            tmp = write(os.path.join(d, "vanish.h"), "int v;\n")
            rc1, _, se1, _ = sh([build.BINDGEN, tmp], timeout=60, cpu=60)
            os.unlink(tmp)
            rc, so, se, _ = sh([build.BINDGEN, tmp], timeout=60, cpu=60)
        else:
            rc, so, se, _ = sh([build.BINDGEN] + args, timeout=60, cpu=60)
        c = crashed(rc, se)
        if name in ("out-missing-dir", "out-unwritable-dir") and c and "Unable to write output" not in se and "No such file" not in se and "Permission denied" not in se:
            out.append(Verdict(VIOLATED, "cli-" + name, c, files={"stderr.txt": se}))
        elif c and name not in ("out-missing-dir", "out-unwritable-dir"):
            out.append(Verdict(VIOLATED, "cli-" + name, c, files={"stderr.txt": se, "args": " ".join(args or [])}, signature=panic_signature(se)))
        elif rc == 0 and name in ("out-missing-dir", "out-unwritable-dir", "bad-flag", "bad-enum-style", "bad-target", "no-header",
                                   "header-deleted-between-runs"):
            out.append(Verdict(VIOLATED, "cli-" + name, "fault injected but exit status is 0", files={"stderr.txt": se}))
        else:
            out.append(Verdict(HELD, "cli-" + name, obs={"fault_cases": 1}, nontrivial=True, key="cli-" + name))
    os.chmod(ro, 0o755)
    return out


def gen_program_case(chk, i):
    rng = chk.rng("gp", i)
    d = chk.dir("g%d" % (i % 32))
    k = rng.choice(["c", "cxx", "types", "templates"])
    if k == "templates":
        from .. import gen_graph
        text, ext, cargs = gen_graph.generate_nested(rng), "hpp", ["-std=c++14"]
    elif k == "c":
        text, ext, cargs = gen_funcs.gen_c(rng, rng.randint(5, 40), abis=False)[0], "h", []
    elif k == "cxx":
        text, ext, cargs = gen_funcs.gen_cxx(rng, rng.randint(5, 25)), "hpp", ["-std=c++17"]
    else:
        text, ext, cargs = G.Gen(rng, dict(bf_in_union=True, p_packed=0.2, p_aligned=0.2)).generate().header(), "h", []
    if rng.random() < 0.6:
        text, _ = mutate.mutate(text, rng, [text])
    p = write(os.path.join(d, "g%d.%s" % (i, ext)), text)
    flags = sample_flags(rng)
    acc = classify_clang(p, cargs, d)
    rc, out, se, cmd, info = run_bindgen(p, flags, cargs, d, "g%d" % i)
    return judge("genprog-%d-%s" % (i, k), acc, rc, out, se, cmd, text, {"generated_programs": 1, "option_sets": 1})


CLUSTER_HEADERS = [
    ("enum-nested-c", "h", "struct es { enum { ES_A, ES_B = 5 } e; enum esn { ESN_A = -1, ESN_B = -1 } f; union { enum { EU_A } g; int h; } u; };\n"
                            "enum { TOP_A, TOP_B = TOP_A }; typedef enum { TD_A = 1 } td_e; enum big { BIG = 0x100000000 }; enum kw { type, match = 0, loop = 0 };\n"
                            "struct ebf { enum esn b : 4; td_e c : 2; };\n"),
    ("enum-nested-cxx", "hpp", "namespace n1 { enum { N_A, N_B }; struct s { enum { S_A } e; enum class sc : char { X = 1, Y = 1 } f; }; namespace n2 { enum named { P = -5, Q = 7 }; } }\n"
                                "enum class top : unsigned long long { A = 0xFFFFFFFFFFFFFFFFULL }; struct outer { struct inner { enum { DEEP } d; } i; };\n"),
    ("alias-c", "h", "typedef int i_t; typedef i_t i2_t; typedef struct s_ { i2_t a; } s_t; typedef s_t *sp_t; typedef void v_t; typedef v_t *vp_t; typedef int arr_t[4];\n"
                     "typedef int (*fp_t)(i_t, sp_t); typedef enum { AE } ae_t; typedef union { int i; float f; } u_t; extern i2_t gi; s_t fn(arr_t a, fp_t f, ae_t e, u_t u);\n"
                     "#define M 5\nstatic const i_t CI = 3;\n"),
    ("union-cxx", "hpp", "struct nc { nc(const nc &); ~nc(); int x; }; union u1 { nc n; int i; u1(); ~u1(); }; union u2 { int a; float b; }; struct has { u1 a; u2 b; unsigned bf : 3; };\n"
                         "union u3 { struct { int x; } s; char c[8]; }; template <typename T> union tu { T t; int i; }; struct ht { tu<int> a; };\n"),
]


def cluster_cases():
    cases = []
    styles = ["consts", "moduleconsts", "bitfield", "newtype", "newtype_global", "rust", "rust_non_exhaustive"]
    for name, ext, text in CLUSTER_HEADERS[:2]:
        for st in styles:
            for prep in ([], ["--no-prepend-enum-name"]):
                for tr in ([], ["--translate-enum-integer-types"]):
                    for ns in ([[], ["--enable-cxx-namespaces"]] if ext == "hpp" else [[]]):
                        cases.append((name, ext, text, ["--default-enum-style", st] + prep + tr + ns))
    name, ext, text = CLUSTER_HEADERS[2]
    for al in ["type_alias", "new_type", "new_type_deref"]:
        for extra in ([], ["--with-derive-default", "--with-derive-hash", "--with-derive-partialeq"], ["--no-derive-copy"], ["--default-enum-style", "rust"], ["--c-naming"]):
            cases.append((name, ext, text, ["--default-alias-style", al] + extra))
    name, ext, text = CLUSTER_HEADERS[3]
    for us in ["bindgen_wrapper", "manually_drop"]:
        for extra in ([], ["--no-derive-copy"], ["--with-derive-default", "--impl-debug"], ["--disable-untagged-union"], ["--enable-cxx-namespaces", "--with-derive-partialeq", "--impl-partialeq"]):
            cases.append((name, ext, text, ["--default-non-copy-union-style", us] + extra))
    # records whose fields cannot be computed (bit-fields of dependent type, flexible arrays in odd places, incomplete types) x the options
    # that walk fields before looking at opacity (flexible-array DSTs, explicit padding, manual impls, wrapper unions)
    odd = ("odd-fields-cxx", "hpp", "template <class T> class X { T t : 6; int tail[]; };\ntemplate <class T> struct Y { T a : 3; T b : 60; char c[0]; };\n"
           "struct Fx { int n; int data[]; };\nstruct Hx { Fx inner; long more[]; };\nstruct Fwd;\nstruct UsesFwd { Fwd *p; Fwd &r; };\n"
           "X<int> gx; Y<unsigned long> gy;\nunion Ux { Fx f; int i; char z[]; };\n")
    for extra in ([], ["--flexarray-dst"], ["--flexarray-dst", "--rust-target", "nightly"], ["--explicit-padding"], ["--impl-debug", "--impl-partialeq", "--with-derive-partialeq"],
                  ["--default-non-copy-union-style", "manually_drop", "--no-derive-copy"], ["--flexarray-dst", "--enable-cxx-namespaces", "--with-derive-default"],
                  ["--opaque-type", "X.*", "--flexarray-dst"], ["--no-layout-tests", "--flexarray-dst", "--with-derive-hash"]):
        cases.append(odd + (extra,))
    # variant-level annotations (constant / hide / rename) on enums at every nesting level x enum styles x namespaces
    ann = ("annotated-enums", "hpp", "struct Outer { enum Named { /** <div rustbindgen constant></div> */ N_A, N_B = 4, /** <div rustbindgen hide></div> */ N_C }; Named n;\n"
           "  struct In { enum Deep { /** <div rustbindgen constant></div> */ D_A = -1, D_B }; enum { /** <div rustbindgen constant></div> */ ANON_A, ANON_B }; } in; };\n"
           "namespace ns1 { enum InNs { /** <div rustbindgen constant></div> */ I_A, I_B }; namespace ns2 { enum class Scoped : short { /** <div rustbindgen constant></div> */ S_A, S_B = 7 }; } }\n"
           "enum Top { /** <div rustbindgen constant></div> */ T_A, /** <div rustbindgen replaces=\"T_A\"></div> */ T_B };\n"
           "/** <div rustbindgen rustified_enum></div> */ enum Ann1 { A1_A, /** <div rustbindgen constant></div> */ A1_B };\n")
    for st in styles:
        for ns in ([], ["--enable-cxx-namespaces"]):
            cases.append(ann + (["--default-enum-style", st] + ns,))
    cases.append(ann + (["--enable-cxx-namespaces", "--no-prepend-enum-name", "--translate-enum-integer-types"],))
    # `replaces=` annotations between differently-parented types (nested in a class, in namespaces, at top level)
    repl = ("annotated-replaces", "hpp", "struct Outer { struct Inner { int a; }; Inner i; struct In2 { char c; }; In2 j; };\n"
            "/** <div rustbindgen replaces=\"Outer_Inner\"></div> */ struct Repl { long b; };\n"
            "namespace n1 { struct Target { int t; }; namespace n2 { /** <div rustbindgen replaces=\"n1::Target\"></div> */ struct NsRepl { double d; }; } struct User { Target u; }; }\n"
            "struct Top { int x; }; struct Holder { /** <div rustbindgen replaces=\"Top\"></div> */ struct NestedRepl { char c[4]; }; Top t; };\n"
            "/** <div rustbindgen replaces=\"Outer_In2\"></div> */ typedef int In2Repl;\n")
    for extra in ([], ["--enable-cxx-namespaces"], ["--no-layout-tests", "--with-derive-default"], ["--enable-cxx-namespaces", "--opaque-type", "Outer"], ["--blocklist-type", "Repl"]):
        cases.append(repl + (extra,))
    oddc = ("odd-fields-c", "h", "struct fa { int n; int data[]; };\nstruct fb { char c; struct fa in; };\nunion fu { struct fa f; char z[]; int i; };\n"
            "struct fz { int z[0]; int n; long t[]; };\nstruct fe { };\nstruct ff { struct fe e[0]; char d[]; };\n")
    for extra in ([], ["--flexarray-dst"], ["--flexarray-dst", "--rust-target", "nightly"], ["--explicit-padding", "--flexarray-dst"], ["--impl-debug", "--flexarray-dst"],
                  ["--flexarray-dst", "--with-derive-default", "--with-derive-hash", "--with-derive-partialeq"]):
        cases.append(oddc + (extra,))
    return cases


def cluster_case(chk, k, case):
    name, ext, text, flags = case
    d = chk.dir("cl%d" % (k % 32))
    p = write(os.path.join(d, "cl%d.%s" % (k, ext)), text)
    cargs = ["-std=c++17"] if ext == "hpp" else []
    acc = classify_clang(p, cargs, d)
    rc, out, se, cmd, info = run_bindgen(p, flags, cargs, d, "cl%d" % k)
    return judge("cluster-%s-%d" % (name, k), acc, rc, out, se, cmd, text, {"option_cluster_runs": 1})


USER_TEXT_HEADER = ("struct Foo { int a; struct { int x; }; };\nunion Bar { int i; float f; };\nenum Color { RED, GREEN };\nint fn_plain(int);\n"
                    "extern int g_var;\n#define M 1\n")
USER_TEXTS = ["with space", "a=b", "x::y", "quote'\"s", "#[", "(", ")", "uni\u00e9\u4e2d", "1abc", "", "'", "\"", "r#", "/*", "//", "\\", "#[doc = \"x\"]", "0x", "'a", "b'x",
              "#[repr(C)] #[", "Clone, 1", "fn", "self", "a-b"]
USER_TEXT_OPTS = [
    ("raw-line", lambda t: ["--raw-line", t]), ("module-raw-line", lambda t: ["--enable-cxx-namespaces", "--module-raw-line", "root", t]),
    ("attribute-custom", lambda t: ["--with-attribute-custom", "Foo=" + t]), ("attribute-custom-struct", lambda t: ["--with-attribute-custom-struct", ".*=" + t]),
    ("attribute-custom-enum", lambda t: ["--default-enum-style", "rust", "--with-attribute-custom-enum", ".*=" + t]),
    ("attribute-custom-union", lambda t: ["--with-attribute-custom-union", ".*=" + t]), ("derive-custom", lambda t: ["--with-derive-custom", "Foo=" + t]),
    ("derive-custom-enum", lambda t: ["--default-enum-style", "rust", "--with-derive-custom-enum", ".*=" + t]),
    ("field-attr", lambda t: ["--field-attr", "Foo::a=" + t]), ("extern-fn-block-attrs", lambda t: ["--extern-fn-block-attrs", t]),
    ("anon-fields-prefix", lambda t: ["--anon-fields-prefix", t]), ("ctypes-prefix", lambda t: ["--ctypes-prefix", t]),
    ("dynamic-loading", lambda t: ["--dynamic-loading", t]), ("prefix-link-name", lambda t: ["--prefix-link-name", t]),
    ("must-use-type", lambda t: ["--must-use-type", t]), ("blocklist-type", lambda t: ["--blocklist-type", t]),
]
USER_TEXT_SITES = {"anon-fields-prefix", "dynamic-loading", "ctypes-prefix", "derive-custom", "derive-custom-enum", "extern-fn-block-attrs", "module-raw-line"}


def bad_clang_args_cases(chk):
    """clang arguments libclang cannot build a translation unit from: an error exit, not a panic"""
    d = chk.dir("badargs")
    p = write(os.path.join(d, "ok.h"), "int x;\nstruct S { int a; };\n")
    out = []
    for k, cargs in enumerate((["--target=bogus-triple"], ["-std=c++99"], ["-x", "nolang"], ["-march=notacpu"], ["-fno-such-flag-at-all"], ["-target"], ["-std=c89", "-x", "c++"],
                               ["-include", "/nonexistent/vf.h"], ["-I"], ["-D"], ["--sysroot=/nonexistent"])):
        rc, o, se, cmd, info = run_bindgen(p, [], cargs, d, "ba%d" % k)
        name = "bad-clang-args-%d" % k
        obs = {"bad_clang_argument_runs": 1}
        files = {"input.h": open(p).read(), "cmd.txt": " ".join(cmd), "stderr.txt": se[-3000:]}
        c = crashed(rc, se)
        if c:
            out.append(Verdict(VIOLATED, name, "clang arguments %s: %s" % (cargs, c), files=files, obs=obs, signature=panic_signature(se)))
        elif rc is None:
            out.append(Verdict(INCONCLUSIVE, name, "watchdog", obs=obs))
        else:
            out.append(Verdict(HELD, name, obs=dict(obs, **{"bad_clang_args_exit.%s" % ("ok" if rc == 0 else "error"): 1}), nontrivial=True, key=name))
    return out


def user_text_cases(chk):
    cases = []
    for oname, mk in USER_TEXT_OPTS:
        for ti, t in enumerate(USER_TEXTS):
            for fm in ("none", "prettyplease", "rustfmt"):
                cases.append((oname, mk, ti, t, fm))
    if chk.quick():
        # every (option, formatter) pair and every (option, text) pair at least once per three runs; all of them in the thorough tier
        r = chk.rng("usertext")
        off = r.randrange(3)
        cases = [c for k, c in enumerate(cases) if (k + c[2] + off) % 3 == 0]
    return cases


def user_text_case(chk, k, case):
    """Text the USER supplies for attributes, derives, raw lines, prefixes and names, well-formed or not, under each formatter: the run ends
    with bindings or with an error exit, never with a panic (a formatter that cannot parse the text must fall back to the unformatted tokens)."""
    oname, mk, ti, t, fm = case
    d = chk.dir("ut%d" % (k % 32))
    p = write(os.path.join(d, "ut%d.h" % k), USER_TEXT_HEADER)
    flags = ["--formatter", fm] + mk(t)
    rc, out, se, cmd, info = run_bindgen(p, flags, [], d, "ut%d" % k)
    name = "usertext-%s-%d-%s" % (oname, ti, fm)
    obs = {"user_text_runs": 1, "user_text_option." + oname: 1, "user_text_formatter." + fm: 1}
    files = {"input.h": USER_TEXT_HEADER, "cmd.txt": " ".join(cmd), "stderr.txt": se[-4000:], "text.txt": t}
    if rc is None:
        return Verdict(INCONCLUSIVE, name, "wall-clock watchdog", obs=obs)
    c = crashed(rc, se)
    if c:
        sig = panic_signature(se)
        if oname in USER_TEXT_SITES and sig and re.search(r"LexError|is not a valid Ident|Ident is not allowed to be empty|Ident cannot be a number|"
                                                               r"expected|Error parsing|at least one trait is required|to be valid", c):
            sig = "c12.user-text-panics:" + oname
        return Verdict(VIOLATED, name, "option text %r: %s" % (t, c), files=files, obs=obs, signature=sig)
    if rc == 0 and not (os.path.exists(out) and os.path.getsize(out) > 0):
        return Verdict(VIOLATED, name, "exit 0 but no bindings written", files=files, obs=obs)
    obs["user_text_exit.%s" % ("ok" if rc == 0 else "error")] = 1
    return Verdict(HELD, name, obs=obs, nontrivial=True, key=name)


def run(chk):
    ents = corpus.entries()
    donors = [open(e[0], errors="replace").read() for e in ents[::23]]
    chk.map(lambda i: mutant_case(chk, i, donors), range(chk.pick(1200, 30000)), budget_s=chk.pick(240, 2400))
    cases = snippet_cases(chk)
    chk.map(lambda cj: snippet_case(chk, cj[0], cj[1]), [(c, j) for c in cases for j in range(chk.pick(3, 8))], budget_s=chk.pick(200, 900))
    chk.map(lambda c: deep_case(chk, c), deep_cases(), budget_s=900)
    chk.map(lambda kc: cluster_case(chk, kc[0], kc[1]), list(enumerate(cluster_cases())), budget_s=600)
    chk.map(lambda kc: user_text_case(chk, kc[0], kc[1]), list(enumerate(user_text_cases(chk))), budget_s=600)
    for v in bad_clang_args_cases(chk):
        chk.add(v)
    chk.map(lambda i: gen_program_case(chk, i), range(chk.pick(300, 4000)), budget_s=chk.pick(150, 1200))
    d, good, fcases = fs_fault_cases(chk)
    chk.map(lambda c: fs_case(chk, d, c), fcases)
    for v in cli_fs_cases(chk, d, good):
        chk.add(v)
    try:
        os.chmod(os.path.join(d, "noread.h"), 0o644)
    except OSError:
        pass
    return chk.finish(
        rule="cases: token/line mutants of repository headers (classified accepted/rejected by `clang -fsyntax-only` with the header's own "
             "clang args) x sampled option sets; ~120 hostile single-construct snippets alone, paired and spliced into generated programs; "
             "deep-nesting and large inputs; full cross products of option clusters (7 enum styles x prepend x translate x namespaces on enum-rich "
             "headers; alias styles; union styles) ; generated C/C++ programs x option sets from an 85-group flag pool; input- and output-side file "
             "system faults and unsupported edition/target pairs through the library (typed error) and the CLI. Non-trivial = the oracle had a "
             "definite expectation (accepted => bindings, rejected => error with diagnostic and no output, fault => its error variant). "
             "Termination is a CPU-time bound of %ds per generation (RLIMIT_CPU)." % CPU_LIMIT,
        assumptions=["`clang -fsyntax-only` classifies like libclang; when the two disagree the case is counted (clang_cli_vs_libclang_disagree) and not judged",
                     "'never loops forever' is decided as a CPU-time bound; the wall-clock watchdog is inconclusive only"])
