"""C09 — allowlisting yields a self-contained, minimal, consistent subset of bindings."""
import os
import re

from .. import build, gen_allow
from ..core import HELD, INCONCLUSIVE, VIOLATED, Verdict, write
from ..core import run as sh
from ..htypes import inventory

LEVEL = "exploration"
HELPERS = re.compile(r"^(__Bindgen|__Incomplete|_bindgen_ty_|__bindgen)")


def emitted(inv):
    """name -> (kind, tokens) of user-visible items"""
    out = {}
    for it in inv["items"]:
        k = it["kind"]
        if k in ("struct", "union", "enum", "type", "const", "static", "fn"):
            if HELPERS.match(it["name"]):
                continue
            out.setdefault(it["name"], []).append((k, it["tokens"]))
        elif k == "use" and " as " in it["name"]:
            # `pub use self::E as T;` is how a typedef of an enum is emitted
            out.setdefault(it["name"].rsplit(" as ", 1)[1].strip(), []).append((k, it["tokens"]))
        elif k == "extern_block":
            for m in it["members"]:
                out.setdefault(m["name"], []).append((m["kind"], "%s|%s|%s" % (it["abi"], it["unsafety"], m["tokens"])))
    asserts = {}
    for a in inv["assertions"]:
        asserts.setdefault(a["ty"], []).append((a["kind"], a["field"], a["value"]))
    return out, asserts


def pattern_for(rng, names, all_names):
    """Returns (regex, kind_of_form). Chosen so that a missing ^(...)$ anchoring would change the match set where possible."""
    form = rng.choice(["literal", "literal", "prefix", "alt", "class", "suffix-wild", "dotall"])
    a = rng.choice(names)
    if form == "literal":
        return a, form
    if form == "prefix":
        return a[:3] + ".*", form
    if form == "alt":
        b = rng.choice(names)
        return "%s|%s" % (a, b), form
    if form == "class":
        return a[:-1] + "[%s]" % "".join(sorted(set(x[-1] for x in all_names if x[:-1] == a[:-1]))[:3] or a[-1]), form
    if form == "suffix-wild":
        # (the leading class keeps the pattern from matching bindgen's synthetic names for unnamed types, `_bindgen_ty_N`)
        return "[A-Za-z].*" + a[-2:], form
    return a[:2] + ".*" + a[-1], form


def matches_synthetic(pat, names=()):
    """bindgen also matches patterns against the synthetic names of unnamed types, which embed item numbers
    (`S_21__bindgen_ty_id_90`, `_bindgen_ty_3`) or are built from the pointee's name (`S_x4_ptr_T_ab` for the type of a member
    `T_ab *m` of S_x4): recorded finding; such selections are left to its reproducer."""
    try:
        rx = re.compile(pat)
    except re.error:
        return False
    for parent, inner in names:
        # (a pattern that selects the parent itself needs the pointee anyway)
        if parent and rx.fullmatch(parent):
            continue
        for pre in ("ptr", "ptr_ptr"):
            if rx.fullmatch("%s_%s_%s" % (parent, pre, inner)) or rx.fullmatch("%s_%s" % (pre, inner)):
                return True
    for n in range(0, 400):
        for nm in ("S_1__bindgen_ty_id_%d" % n, "_bindgen_ty_%d" % n, "S_1x__bindgen_ty_id_%d" % n, "f_a__bindgen_ty_id_%d" % n, "T_2__bindgen_ty_id_%d" % n):
            if rx.fullmatch(nm):
                return True
    return False


def pointer_uses(items):
    """(item, pointee) for every `X *` in an item's declaration where X is a named type of the graph"""
    tn = set(it.name for it in items if it.kind == "type")
    out = set()
    for it in items:
        for m in re.finditer(r"(\w+) ?\*", it.text):
            if m.group(1) in tn:
                out.add((it.name, m.group(1)))
    return sorted(out)


def synthetic_repro(chk):
    d = chk.dir("repro")
    hdr = write(os.path.join(d, "r.h"), "struct S_10 { unsigned long m0; double m1; };\nstruct S_1x { struct S_10 m0; };\n"
                "struct S_21 { int m0; int (*cb)(struct S_1x *); };\n#define M_90 991\n" + "".join("#define PAD_%d %d\n" % (k, k) for k in range(40)))
    # find an id that makes the synthetic name of S_21's callback pointer match
    for n in range(1, 200):
        o = os.path.join(d, "r.rs")
        rc, so, se, _ = sh([build.BINDGEN, hdr, "--no-layout-tests", "--allowlist-item", "M_90|S_21__bindgen_ty_id_%d" % n, "-o", o], timeout=60)
        if rc == 0 and "pub struct S_1x" in open(o).read():
            return Verdict(VIOLATED, "repro-synthetic-name", "pattern `S_21__bindgen_ty_id_%d` (no C item has that name) allowlists S_1x and S_10" % n,
                           signature="c09.pattern-matches-synthetic-name")
    return Verdict(HELD, "repro-synthetic-name")


def synthetic_ptr_repro(chk):
    """the other kind of synthetic name: the unnamed pointer type of member `T_ab *m1` of S_x4 is called `S_x4_ptr_T_ab`"""
    d = chk.dir("repro2")
    hdr = write(os.path.join(d, "r2.h"), "enum E_30 { E_30_v0 };\ntypedef enum E_30 *T_ab;\nstruct S_x4 { T_ab *m1; };\nstruct S_b { int x; };\n")
    o = os.path.join(d, "r2.rs")
    rc, so, se, _ = sh([build.BINDGEN, hdr, "--no-layout-tests", "--allowlist-type", "S_.*b", "-o", o], timeout=60)
    if rc != 0:
        return Verdict(INCONCLUSIVE, "repro-synthetic-pointer-name", se[-200:])
    if "pub type T_ab" in open(o).read():
        return Verdict(VIOLATED, "repro-synthetic-pointer-name", "pattern `S_.*b` allowlists T_ab and E_30, which S_b does not need (it matches the name "
                       "`S_x4_ptr_T_ab` bindgen gives to the type of S_x4's member)", signature="c09.pattern-matches-synthetic-name")
    return Verdict(HELD, "repro-synthetic-pointer-name")


def case(chk, i):
    rng = chk.rng("case", i)
    nsr = chk.rng("ns", i)
    ns = nsr.choice([None, None, None, ["net"], ["disk", "cache"]])
    items = gen_allow.generate(rng, cxx=bool(ns))
    d = chk.dir("c%d" % (i % 32))
    base_flags = ["--no-prepend-enum-name", "--no-layout-tests"] if rng.random() < 0.5 else ["--no-prepend-enum-name"]
    # C++ variant: the same declaration graph inside one (possibly nested) namespace; patterns are then namespace-qualified paths,
    # and a bare name must select nothing
    cargs = []
    if ns:
        items = [it for it in items if it.sub != "macro"]       # macros have no namespace
        style_flags = []
        if nsr.random() < 0.5:
            # enum styles, globally and per enum: what an enum with a fixed underlying typedef needs does not depend on the style of OTHER enums
            style_flags = ["--default-enum-style", nsr.choice(["rust", "rust", "newtype", "rust_non_exhaustive"])]
            if nsr.random() < 0.7:
                style_flags += [nsr.choice(["--constified-enum", "--newtype-enum", "--bitfield-enum", "--rustified-enum"]), ".*E_[0-9a-z_]*[1-5ab]"]
            # (unnamed enums in these styles become `_bindgen_ty_N` types with namespace-prefixed constants: not modelled here)
            items = [it for it in items if it.sub != "anon_enum"]
        body = gen_allow.header(items)
        text = "".join("namespace %s {\n" % n for n in ns) + body + "}\n" * len(ns)
        hdr = write(os.path.join(d, "a%d.hpp" % i), text)
        base_flags = base_flags + ["--enable-cxx-namespaces"] + (["--vtable-generation"] if nsr.random() < 0.6 else [])
        cargs = ["--", "-x", "c++", "-std=c++14"]
        base_flags = base_flags + style_flags
    else:
        hdr = write(os.path.join(d, "a%d.h" % i), gen_allow.header(items))
    nsp = "::".join(ns) + "::" if ns else ""
    full = os.path.join(d, "full%d.rs" % i)
    rc, so, se, _ = sh([build.BINDGEN, hdr] + base_flags + ["-o", full] + cargs, timeout=120, cpu=100)
    name = "allow-%d" % i
    if rc != 0:
        return Verdict(INCONCLUSIVE, name, "bindgen rejects generated header: " + se[-300:])
    finv = inventory(full)
    fem, fas = emitted(finv)
    out = []
    by = {it.name: it for it in items}
    # every C item's Rust-visible names
    def rust_names(it):
        return [it.name] + (it.members if it.sub in ("enum",) else []) if it.sub != "anon_enum" else list(it.members)
    for s in range(chk.pick(4, 12)):
        r = chk.rng("sel", i, s)
        recursive = r.random() < 0.7
        flags, pats = [], []
        bare = bool(ns) and chk.rng("bare", i, s).random() < 0.2
        kinds = r.sample(["type", "function", "var", "item"], r.randint(1, 3))
        for kd in kinds:
            pool = [it for it in items if (kd == "item" or it.kind == kd)]
            if not pool:
                continue
            names = [n for it in pool for n in ([it.name] if it.sub != "anon_enum" else it.members)]
            alln = [n for it in items for n in ([it.name] if it.sub != "anon_enum" else it.members)]
            for _ in range(r.randint(1, 2)):
                pat, form = pattern_for(r, names, alln)
                flags += ["--allowlist-%s" % kd, (nsp + "(" + pat + ")") if (ns and not bare) else pat]
                pats.append((kd, pat, form))
        block = []
        if r.random() < 0.35:
            bk = r.choice(["type", "function", "var", "item"])
            pool = [it for it in items if (bk == "item" or it.kind == bk) and it.sub != "anon_enum"]
            if pool:
                bn = r.choice(pool).name
                flags += ["--blocklist-%s" % bk, nsp + bn]
                block.append((bk, bn))
        if not recursive:
            flags.append("--no-recursive-allowlist")
        # model: R
        def matches(kd, pat, it):
            if kd != "item" and it.kind != kd:
                return False
            cands = [it.name] if it.sub != "anon_enum" else it.members
            if it.sub == "anon_enum" and kd == "item":
                cands = it.members
            # an unqualified pattern is matched against the qualified path like any other (wild cards may still reach into the namespace)
            return any(re.fullmatch(pat, (nsp + c) if bare else c) for c in cands)
        # function generation switched off: functions are never emitted, everything else (incl. types that are reachable only through
        # the signature of a function-pointer member / typedef) is selected and closed over as usual
        nofn = chk.rng("nofn", i, s).random() < 0.25
        methods_on = True
        if nofn:
            flags.append(r.choice(["--ignore-functions", "--generate=types,vars"]))
            methods_on = flags[-1] == "--ignore-functions"       # that option leaves methods on, the --generate list above does not
        vtables = "--vtable-generation" in base_flags
        R = set(it.name for it in items if any(matches(kd, pat, it) for kd, pat, _ in pats) and not (nofn and it.kind == "function"))
        B = set(it.name for it in items for bk, bn in block if (bk == "item" or it.kind == bk) and it.name == bn)
        if not pats:
            continue            # no allowlist option was produced for this selection (empty pools): nothing to check
        anyroot = bool(R)
        R -= B
        if not R and (not bare or anyroot):
            continue
        if bare and not anyroot:
            # unqualified patterns match no item of the namespace: nothing of the header may be emitted
            o = os.path.join(d, "bare%d_%d.rs" % (i, s))
            rc, so, se, _ = sh([build.BINDGEN, hdr] + base_flags + flags + ["-o", o] + cargs, timeout=120, cpu=100)
            cname = "%s-s%d-bare" % (name, s)
            if rc != 0:
                out.append(Verdict(INCONCLUSIVE, cname, "bindgen failed: " + se[-300:]))
                continue
            inv = inventory(o)
            em, _asr = emitted(inv) if "error" not in inv else ({}, {})
            got = sorted(it.name for it in items if any(n in em for n in rust_names(it)))
            if got:
                out.append(Verdict(VIOLATED, cname, "unqualified patterns %s select items of namespace %s: %s" % ([p_[1] for p_ in pats], nsp, got[:8]),
                                   files={"header.hpp": open(hdr).read(), "flags.txt": " ".join(base_flags + flags), "allowlisted.rs": open(o).read()}))
            else:
                out.append(Verdict(HELD, cname, obs={"bare_pattern_selections": 1}, nontrivial=True, key=cname))
            continue
        if any(kd in ("type", "item") and matches_synthetic(pat, pointer_uses(items)) for kd, pat, _ in pats):
            out.append(Verdict(HELD, "%s-s%d" % (name, s), obs={"selections_skipped_synthetic_name_pattern": 1}))
            continue
        o = os.path.join(d, "sel%d_%d.rs" % (i, s))
        rc, so, se, _ = sh([build.BINDGEN, hdr] + base_flags + flags + ["-o", o] + cargs, timeout=120, cpu=100)
        cname = "%s-s%d" % (name, s)
        files = {"header.h": open(hdr).read(), "flags.txt": " ".join(base_flags + flags)}
        if rc != 0:
            out.append(Verdict(INCONCLUSIVE, cname, "bindgen failed: " + se[-300:]))
            continue
        inv = inventory(o)
        if "error" in inv:
            out.append(Verdict(VIOLATED, cname, "allowlisted output does not parse: " + inv["error"], files=files))
            continue
        em, asr = emitted(inv)
        files["allowlisted.rs"] = open(o).read()
        problems = []
        case_sig = None
        E = set()
        for it in items:
            if any(n in em for n in rust_names(it)):
                E.add(it.name)
        # blocked closure: needs are not followed through blocklisted items
        def cl(roots):
            seen, stack = set(), list(roots)
            while stack:
                x = stack.pop()
                if x in seen or x in B:
                    continue
                seen.add(x)
                # types of method signatures are needed when the methods or the vtable structs are generated
                stack.extend(by[x].needs | (by[x].mneeds if (methods_on or vtables) else set()))
            return seen
        C = cl(R)
        # upper bound for minimality: roots before the blocklist is applied, needs followed through everything
        Rall = set(it.name for it in items if any(matches(kd, pat, it) for kd, pat, _ in pats) and not (nofn and it.kind == "function"))
        CU = gen_allow.closure(items, Rall)
        miss = R - E
        if miss:
            problems.append("allowlisted items not emitted: %s" % sorted(miss))
        if B & E:
            problems.append("items matched by an allowlist and a blocklist are emitted: %s" % sorted(B & E))
        if recursive:
            extra = E - CU
            if extra:
                problems.append("items unrelated to any allowlisted item are emitted: %s (allowlisted %s)" % (sorted(extra), sorted(R)))
            lack = C - E
            if lack:
                problems.append("items the allowlisted ones need are missing: %s" % sorted(lack))
                if vtables and not methods_on:
                    # recorded: with methods switched off the traversal skips method signatures, yet --vtable-generation writes them
                    def cl_plain(roots):
                        seen, stack = set(), list(roots)
                        while stack:
                            x = stack.pop()
                            if x in seen or x in B:
                                continue
                            seen.add(x)
                            stack.extend(by[x].needs)
                        return seen
                    if lack <= (C - cl_plain(R)):
                        case_sig = "c09.vtable-signature-types-when-methods-are-off"
        else:
            if E != R:
                problems.append("--no-recursive-allowlist: emitted %s, selected %s" % (sorted(E), sorted(R)))
        # textual identity with the un-allowlisted run
        ntok = 0
        for n, lst in em.items():
            if n not in fem:
                problems.append("item %s appears only in the allowlisted bindings" % n)
                continue
            ntok += 1
            if not recursive or B or block:
                # without recursion the derive analysis cannot see the member types, and traits are not derived through
                # a blocklisted type: compare modulo derive attributes in those two cases
                strip = lambda t: re.sub(r"# \[derive \([^)]*\)\] ", "", t)
                lst = [(k, strip(t)) for k, t in lst]
                ref = [(k, strip(t)) for k, t in fem[n]]
            else:
                ref = fem[n]
            if sorted(lst) != sorted(ref):
                problems.append("item %s differs from the un-allowlisted bindings:\n  %s\n  %s" % (n, lst[0][1][:200], fem[n][0][1][:200]))
        for t, a in asr.items():
            if sorted(map(str, a)) != sorted(map(str, fas.get(t, []))):
                problems.append("layout assertions of %s differ from the un-allowlisted bindings" % t)
        obs = {"selections": 1, "items_compared_textually": ntok, "selected_roots": len(R), "closure_size": len(C), "emitted": len(E),
               "pattern_form." + pats[0][2]: 1, "recursive": int(recursive), "with_blocklist": int(bool(block)),
               "namespaced_selections": int(bool(ns)), "selections_without_function_generation": int(nofn)}
        if recursive and not problems and not B:
            w = write(os.path.join(d, "w%d_%d.rs" % (i, s)), '#![allow(warnings)]\ninclude!("%s");\n' % o)
            rcr, sor, ser, _ = sh(["rustc", "--edition", "2021", "--crate-type", "lib", "--emit=metadata", "-o", os.path.join(d, "w%d_%d.rmeta" % (i, s)), w], timeout=120)
            obs["rustc_runs"] = 1
            if rcr != 0:
                problems.append("allowlisted bindings do not compile on their own: " + ser[:500])
        if problems:
            out.append(Verdict(VIOLATED, cname, "\n".join(problems)[:2500], files=files, obs=obs, signature=case_sig if len(problems) <= 2 else None))
        else:
            out.append(Verdict(HELD, cname, obs=obs, nontrivial=len(C) < len(items) and len(E) >= 1, key=cname,
                               sample={"flags": flags, "selected": sorted(R), "closure": sorted(C)} if (i % 17 == 0 and s == 0) else None))
    return out


ENUM_STYLES = [None, "consts", "rust", "rust_non_exhaustive", "newtype", "newtype_global", "bitfield", "moduleconsts"]
ENUM_OVERRIDES = [None, "--constified-enum", "--constified-enum-module", "--newtype-enum", "--newtype-global-enum", "--bitfield-enum", "--rustified-enum",
                  "--rustified-non-exhaustive-enum"]


def enum_repr_case(chk, i):
    """Enums whose underlying type is a user typedef used nowhere else, one enum allowlisted: every (default style x per-enum override x
    integer translation x namespace) combination. Whatever the enum's own style makes it spell, the output compiles alone and its items
    are those of the un-allowlisted run."""
    dstyle = ENUM_STYLES[i % len(ENUM_STYLES)]
    over = ENUM_OVERRIDES[(i // len(ENUM_STYLES)) % len(ENUM_OVERRIDES)]
    rest = i // (len(ENUM_STYLES) * len(ENUM_OVERRIDES))
    translate, ns = bool(rest & 1), bool(rest & 2)
    rng = chk.rng("enumrepr", i)
    d = chk.dir("er%d" % (i % 32))
    und = ["short", "unsigned char", "long", "unsigned int"]
    rng.shuffle(und)
    decl = []
    for k, u in enumerate(und):
        decl.append("typedef %s small%d_t;" % (u, k))
        decl.append("enum En%d : small%d_t { En%d_A = 1, En%d_B = 2 };" % (k, k, k, k))
    decl.append("struct UsesEn { enum En3 e; };")
    body = "\n".join(decl) + "\n"
    text = "namespace net {\n%s}\n" % body if ns else body
    hdr = write(os.path.join(d, "er%d.hpp" % i), text)
    nsp = "net::" if ns else ""
    target = rng.choice([0, 1, 2])
    base = ["--no-layout-tests"] + (["--enable-cxx-namespaces"] if ns else []) + (["--default-enum-style", dstyle] if dstyle else []) \
        + ([over, ".*En[%d%d]" % (target, (target + 1) % 3)] if over else []) + (["--translate-enum-integer-types"] if translate else [])
    sel = ["--allowlist-type", "%sEn%d" % (nsp, target)]
    cargs = ["--", "-x", "c++", "-std=c++14"]
    name = "enumrepr-%d" % i
    outs = []
    for tag, extra in (("full", []), ("sel", sel)):
        o = os.path.join(d, "er%d_%s.rs" % (i, tag))
        rc, so, se, _ = sh([build.BINDGEN, hdr] + base + extra + ["-o", o] + cargs, timeout=120, cpu=100)
        if rc != 0:
            return Verdict(INCONCLUSIVE, name, "bindgen failed: " + se[-300:])
        outs.append(o)
    files = {"header.hpp": text, "flags.txt": " ".join(base + sel), "full.rs": open(outs[0]).read(), "allowlisted.rs": open(outs[1]).read()}
    obs = {"enum_style_combinations": 1, "enum_default_style.%s" % dstyle: 1, "enum_override.%s" % over: 1}
    problems = []
    w = write(os.path.join(d, "erw%d.rs" % i), '#![allow(warnings)]\ninclude!("%s");\n' % outs[1])
    rcr, sor, ser, _ = sh(["rustc", "--edition", "2021", "--crate-type", "lib", "--emit=metadata", "-o", os.path.join(d, "erw%d.rmeta" % i), w], timeout=120)
    if rcr != 0:
        problems.append("allowlisted bindings do not compile on their own: " + ser[:500])
    a, b = files["allowlisted.rs"], files["full.rs"]
    if "En%d" % target not in a:
        problems.append("the allowlisted enum En%d is not emitted" % target)
    for k in range(4):
        if k != target and re.search(r"\bEn%d\b" % k, a):
            problems.append("En%d is unrelated to the allowlisted En%d but emitted" % (k, target))
    # every line of the allowlisted bindings is a line of the full ones
    extra_lines = [l for l in a.splitlines() if l.strip() and l.strip() not in set(x.strip() for x in b.splitlines())]
    if extra_lines:
        problems.append("lines only in the allowlisted bindings: %s" % extra_lines[:3])
    if problems:
        return Verdict(VIOLATED, name, "\n".join(problems)[:2000], files=files, obs=obs)
    return Verdict(HELD, name, obs=obs, nontrivial=True, key=name)


def run(chk):
    chk.add(synthetic_repro(chk))
    chk.add(synthetic_ptr_repro(chk))
    n_er = len(ENUM_STYLES) * len(ENUM_OVERRIDES) * 4
    chk.map(lambda i: enum_repr_case(chk, i), range(n_er) if chk.tier != "quick" else sorted(chk.rng("er").sample(range(n_er), 64)), budget_s=chk.pick(200, 900))
    chk.map(lambda i: case(chk, i), range(chk.pick(60, 500)), budget_s=chk.pick(400, 2400))
    return chk.finish(
        rule="case = (generated declaration graph of structs, typedefs, enums, unnamed enums, macros, globals and functions with a known "
             "needs relation incl. pointers and function-pointer members, selection) where a selection is 1..3 allowlist kinds x 1..2 "
             "patterns (literal / prefix.* / alternation / character class / .*suffix; names are proper prefixes and suffixes of each "
             "other so anchoring matters), optionally a blocklist overlapping the roots and --no-recursive-allowlist; non-trivial = the "
             "closure is a proper subset of the header. Oracle: selected subset of emitted, emitted subset of closure, closure subset of "
             "emitted (recursive), exact equality (non-recursive), no blocklisted root, token identity of every emitted item and its layout "
             "assertions with the un-allowlisted run, rustc accepts the allowlisted output alone. Enum family: enums with fixed underlying user "
             "typedefs, one allowlisted, over default style x per-enum override x --translate-enum-integer-types x namespaces (64 of the 256 "
             "combinations per quick run, all in thorough).",
        assumptions=["Python re.fullmatch agrees with the regex crate on the restricted pattern syntax used",
                     "the generator's needs relation is the reference for 'transitively needs'"])
