"""C05 — constants carry the C compiler's value in a type that can hold it."""
import os
import re
import struct

from .. import build, gen_macros, probes
from ..core import HELD, INCONCLUSIVE, VIOLATED, Verdict, write
from ..core import run as sh
from ..htypes import RUSTC_FLAGS, inventory

LEVEL = "exploration"
STYLES = ["consts", "moduleconsts", "newtype", "newtype_global", "bitfield", "rust"]
C_PRE = r'''
#include <stdio.h>
#include <string.h>
#define VF_CLS(x) _Generic((x), int: "int/1/4", unsigned int: "int/0/4", long: "int/1/8", unsigned long: "int/0/8", long long: "int/1/8", \
    unsigned long long: "int/0/8", char: "int/1/1", signed char: "int/1/1", unsigned char: "int/0/1", short: "int/1/2", unsigned short: "int/0/2", \
    _Bool: "bool/0/1", float: "float/1/4", double: "float/1/8", long double: "float/1/16", char *: "str", const char *: "str", default: "other")
static void vf_int(const char *n, const char *cls, long long s, unsigned long long u) {
  if (cls[4] == '1') printf("M %s %s %lld\n", n, cls, s); else printf("M %s %s %llu\n", n, cls, u); }
static void vf_flt(const char *n, const char *cls, double d) { unsigned long long b; memcpy(&b, &d, 8); printf("M %s %s d%016llx\n", n, cls, b); }
static void vf_str(const char *n, const char *p, unsigned long len) { printf("M %s str ", n); for (unsigned long i = 0; i < len; i++) printf("%02x", (unsigned char)p[i]); printf("\n"); }
'''


def gen_enums(rng):
    out, info = [], []
    for i in range(rng.randint(1, 4)):
        name = "EN%d" % i
        style = rng.choice(["seq", "neg", "big", "dup", "sparse", "fixed-u8", "fixed-i64", "fixed-u32", "huge-u", "fixed-u8", "fixed-u32", "fixed-u64"])
        n = rng.randint(1, 5)
        vals, cur = [], 0
        under = {"fixed-u8": "unsigned char", "fixed-i64": "long long", "fixed-u32": "unsigned int", "fixed-u64": "unsigned long long"}.get(style)
        if under and rng.random() < 0.6:
            # the fixed underlying type reached through a typedef chain (as <stdint.h> spells uint8_t .. uint64_t), with values in the
            # upper half of its range
            depth = rng.randint(1, 3)
            prev = under
            for q in range(depth):
                tn = "ut%d_%d" % (i, q)
                out.append("typedef %s %s;" % (prev, tn))
                prev = tn
            under = prev
        for j in range(n):
            if style == "neg" and j == 0:
                cur = -rng.randint(1, 1000)
            if style == "big" and j == n - 1:
                cur = rng.choice([2 ** 31, 2 ** 32, 2 ** 40 + 7, -2 ** 33])
            if style == "huge-u" and j == n - 1:
                cur = rng.choice([2 ** 63, 2 ** 64 - 1])
            if style == "dup" and j == n - 1 and j > 0:
                cur = vals[0][1]
            if style == "sparse":
                cur += rng.randint(1, 1000)
            if style == "fixed-u8":
                cur = min(cur, 255)
                if j == n - 1:
                    cur = rng.choice([128, 200, 255])
            if style == "fixed-u32" and j == n - 1:
                cur = rng.choice([0x80000000, 0xFFFFFFFF, 0xC0000000])
            if style == "fixed-u64" and j == n - 1:
                cur = rng.choice([2 ** 63, 2 ** 64 - 1])
            if style == "fixed-i64" and j == 0:
                cur = -2 ** 40
            vals.append(("%s_v%d" % (name, j), cur))
            cur += 1
        body = ", ".join("%s = %s" % (a, cv(b)) for a, b in vals)
        out.append("enum %s%s { %s };" % (name, " : " + under if under else "", body))
        info.append((name, vals))
    # anonymous enum
    if rng.random() < 0.6:
        vals = [("AN_v%d" % j, rng.choice([0, 5, -2, 70000, 2 ** 32 + 1][:rng.randint(1, 5)])) for j in range(rng.randint(1, 3))]
        out.append("enum { %s };" % ", ".join("%s = %s" % (a, cv(b)) for a, b in vals))
        info.append((None, vals))
    return "\n".join(out) + "\n", info


def cv(v):
    if v >= 2 ** 63:
        return "%dULL" % v
    if v < -(2 ** 31) or v > 2 ** 31 - 1:
        return "%dLL" % v
    return str(v)


def gen_consts(rng):
    out, info = [], []
    kinds = [("int", "int", lambda: rng.choice([0, -1, 2147483647, -2147483647 - 1, rng.randrange(-9999, 9999)])),
             ("unsigned int", "int", lambda: rng.choice([0, 4294967295, 7])),
             ("long", "int", lambda: rng.choice([-9223372036854775807 - 1, 9223372036854775807, 12345678901])),
             ("unsigned long long", "int", lambda: rng.choice([18446744073709551615, 0, 9223372036854775808])),
             ("short", "int", lambda: rng.choice([-32768, 32767, 5])), ("unsigned char", "int", lambda: rng.choice([0, 255, 128])),
             ("signed char", "int", lambda: rng.choice([-128, 127])), ("char", "int", lambda: rng.choice([65, -128, 127])),
             ("_Bool", "bool", lambda: rng.choice([0, 1])), ("double", "float", lambda: rng.choice(["1.5", "-0.25", "1e300", "0.1"])),
             ("float", "float", lambda: rng.choice(["0.5f", "3.25f", "0.1f"]))]
    for i in range(rng.randint(2, 8)):
        c, kind, g = rng.choice(kinds)
        v = g()
        q = rng.choice(["const", "static const"])
        if isinstance(v, int):
            lit = cv(v) if c != "unsigned long long" else "%dULL" % v
            if v == -9223372036854775807 - 1:
                lit = "(-9223372036854775807LL - 1)"
            if v == -2147483647 - 1:
                lit = "(-2147483647 - 1)"
        else:
            lit = v
        if isinstance(v, int) and c != "_Bool" and rng.random() < 0.5:
            # initialiser expressions instead of plain literals: the value is what the C compiler stores after the usual conversions
            # (unary operators on unsigned 32-bit literals stored into 64-bit variables, casts, arithmetic); C prints the variable
            from .. import gen_macros
            form = rng.random()
            try:
                if form < 0.3:
                    # a 32-bit unsigned operand under a unary operator, stored into a 64-bit variable: the operator acts in 32 bits
                    c = rng.choice(["long", "unsigned long long", "unsigned long", "long long"])
                    mag = rng.choice([0, 1, 2, 127, 0x7fffffff, 0x80000000, 0xffffffff, rng.randrange(1 << 32)])
                    body = rng.choice(["%dU" % mag, "0x%xU" % mag, "0x%x" % (mag | 0x80000000), "%du" % mag])
                    lit = rng.choice(["%s%s", "%s%s", "%s(%s)", "(%s%s)"]) % (rng.choice(["-", "~"]), body)
                elif form < 0.6:
                    l_ = gen_macros.literal(rng)
                    op = rng.choice(["-", "~", "!", "+", "-", "~"])
                    lit = rng.choice(["%s%s", "%s(%s)", "(%s%s)"]) % (op, l_.text)
                    if op == "-" and l_.ty in ("int", "long") and l_.val == 0:
                        lit = "-1U"
                else:
                    lit = gen_macros.expr(rng, rng.randint(1, 3), []).text
            except gen_macros.UB:
                lit = rng.choice(["~0U", "-1U", "-0x80000000", "~0x7fU", "-(1U)", "(~0U)", "~0UL", "-2147483648"])
        out.append("%s %s CV%d = %s;" % (q, c, i, lit))
        info.append(("CV%d" % i, c, kind))
    if rng.random() < 0.5:
        out.append('const char *const CVS = "const\\tstring";')
        out.append('const char CVA[] = "arr";')
    return "\n".join(out) + "\n", info


def case(chk, i):
    rng = chk.rng("case", i)
    macros = gen_macros.generate(rng, rng.randint(8, 30))
    etext, einfo = gen_enums(rng)
    ctext, cinfo = gen_consts(rng)
    d = chk.dir("m%d" % (i % 48))
    for f in os.listdir(d):
        try:
            os.unlink(os.path.join(d, f))
        except OSError:
            pass
    text = gen_macros.header(macros) + etext + ctext
    hdr = write(os.path.join(d, "h.h"), text)
    # ---- C side (clang is the oracle): one probe line per non-hostile macro, built macro by macro so that a macro clang rejects is simply absent
    final = {}
    for m in macros:
        if "undef" in m:
            final.pop(m["undef"], None)
        else:
            final[m["name"]] = m
    body = ""
    for n, m in final.items():
        if m["kind"] == "hostile":
            continue
        if m["kind"] == "str":
            body += '  vf_str("%s", %s, sizeof(%s));\n' % (n, n, n)
        elif m["kind"] == "float":
            body += '  vf_flt("%s", VF_CLS(%s), (double)(%s));\n' % (n, n, n)
        else:
            body += '  vf_int("%s", VF_CLS(%s), (long long)(%s), (unsigned long long)(%s));\n' % (n, n, n, n)
    for en, vals in einfo:
        for vn, vv in vals:
            body += '  printf("E %s %%lld %%llu\\n", (long long)%s, (unsigned long long)%s);\n' % (vn, vn, vn)
        if en:
            body += '  printf("ET %s %%zu %%d\\n", sizeof(enum %s), (int)((enum %s)-1 < 0));\n' % (en, en, en)
    for n, c, kind in cinfo:
        if kind == "float":
            body += '  vf_flt("%s", VF_CLS(%s), (double)%s);\n' % (n, n, n)
        else:
            body += '  vf_int("%s", VF_CLS(%s), (long long)%s, (unsigned long long)%s);\n' % (n, n, n, n)
    csrc = write(os.path.join(d, "p.c"), C_PRE + '#include "h.h"\nint main(void) {\n' + body + "  return 0;\n}\n")
    exe = os.path.join(d, "p")
    rc, so, se, _ = sh(["clang", "-w", "-O0", csrc, "-o", exe, "-I", d], timeout=120)
    name = "consts-%d" % i
    if rc != 0:
        return Verdict(INCONCLUSIVE, name, "clang rejects generated probe: " + se[:600])
    rc, cout, se, _ = sh([exe], timeout=30)
    cm, ce, cet = {}, {}, {}
    for line in cout.splitlines():
        p = line.split(" ")
        if p[0] == "M":
            cm[p[1]] = (p[2], p[3] if len(p) > 3 else "")
        elif p[0] == "E":
            ce[p[1]] = (int(p[2]), int(p[3]))
        elif p[0] == "ET":
            cet[p[1]] = (int(p[2]), int(p[3]))
    # evaluator agrees with clang? (classification aid only)
    out = []
    for style in chk.rng("styles", i).sample(STYLES, chk.pick(2, 6)):
        flags = ["--default-enum-style", style] + rng.choice([[], ["--default-macro-constant-type", "signed"], ["--fit-macro-constant-types"],
                                                                ["--fit-macro-constant-types", "--default-macro-constant-type", "signed"],
                                                                ["--fit-macro-constant-types", "--default-macro-constant-type", "unsigned"],
                                                                ["--translate-enum-integer-types"], ["--no-prepend-enum-name"],
                                                                ["--no-prepend-enum-name", "--translate-enum-integer-types"]])
        cname = "%s-%s" % (name, style)
        b = os.path.join(d, "b_%s.rs" % style)
        rc, so, se, _ = sh([build.BINDGEN, hdr] + flags + ["-o", b], timeout=120, cpu=100)
        files = {"h.h": text, "flags.txt": " ".join(flags)}
        if rc != 0:
            sig = None
            if "divide by zero" in se or "divisor of zero" in se:
                out.append(Verdict(HELD, cname, obs={"bindgen_crashes_deferred_to_C12": 1}))
            else:
                out.append(Verdict(INCONCLUSIVE, cname, "bindgen failed: " + se[-300:]))
            continue
        inv = inventory(b)
        if "error" in inv:
            out.append(Verdict(VIOLATED, cname, "bindings do not parse", files=files))
            continue
        files["bindings.rs"] = open(b).read()
        view = probes.RustView(inv)
        consts = {}
        for it in inv["items"]:
            if it["kind"] == "const":
                consts.setdefault(it["module"], {})[it["name"]] = it
        top = consts.get("root", {})
        rs = [probes.RS_PRELUDE, 'include!("%s");' % b] + probes.scalar_impls(view)
        rs.append("pub trait VfConst { fn cs(&self) -> String; }")
        rs.append("impl<T: VfScalar> VfConst for T { fn cs(&self) -> String { let mut s = String::new(); self.show(&mut s); format!(\"{}/{}/{} {}\", T::KIND, if T::SIGNED {1} else {0}, std::mem::size_of::<T>(), s) } }")
        rs.append("impl<const N: usize> VfConst for &[u8; N] { fn cs(&self) -> String { format!(\"str {}\", self.iter().map(|b| format!(\"{:02x}\", b)).collect::<String>()) } }")
        rs.append("impl VfConst for &::std::ffi::CStr { fn cs(&self) -> String { format!(\"str {}\", self.to_bytes_with_nul().iter().map(|b| format!(\"{:02x}\", b)).collect::<String>()) } }")
        main = ["fn main() {"]
        emitted_macros = [n for n in final if n in top]
        for n in emitted_macros:
            main.append('    println!("M %s {}", VfConst::cs(&%s));' % (n, n))
        for n, c, kind in cinfo:
            if n in top:
                main.append('    println!("M %s {}", VfConst::cs(&%s));' % (n, n))
        enum_paths = {}
        for en, vals in einfo:
            for vn, vv in vals:
                cands = []
                if en:
                    cands = ["%s_%s" % (en, vn), vn]
                else:
                    cands = [vn]
                path = None
                for c in cands:
                    if c in top:
                        path = c
                        break
                if path is None and not en:
                    for mod, cs_ in consts.items():
                        if vn in cs_ and mod != "root":
                            path = mod.replace("root::", "", 1) + "::" + vn
                if path is None and en:
                    path = "%s::%s" % (en, vn)
                    # exists as module const, associated const or variant?
                    ok = vn in consts.get("root::" + en, {}) or any(
                        it["kind"] == "impl" and it["self_ty"].replace(" ", "") == en for it in inv["items"]) or en in view.enums
                    if not ok:
                        path = None
                enum_paths[vn] = path
                if path:
                    main.append('    println!("E %s {}", VfConst::cs(&%s));' % (vn, path))
        main.append("}")
        prs = write(os.path.join(d, "r_%s.rs" % style), "\n".join(rs + main) + "\n")
        rexe = os.path.join(d, "r_%s" % style)
        rc, so, se, _ = sh(["rustc"] + RUSTC_FLAGS + [prs, "-o", rexe], timeout=300)
        if rc != 0:
            locs = re.findall(r"^error[^\n]*\n\s*--> (\S+?):\d+:\d+", se, re.M)
            if any(l.endswith("/b_%s.rs" % style) for l in locs):
                out.append(Verdict(VIOLATED, cname, "bindings with constants do not compile: " + se[:700], files=files, signature=rustc_sig(se)))
            else:
                out.append(Verdict(INCONCLUSIVE, cname, "probe does not compile (harness): " + se[:700]))
            continue
        rc, rout, se, _ = sh([rexe], timeout=30)
        rm, re_ = {}, {}
        for line in rout.splitlines():
            p = line.split(" ")
            if p[0] == "M":
                rm[p[1]] = (p[2], p[3] if len(p) > 3 else "")
            elif p[0] == "E":
                re_[p[1]] = (p[2], p[3] if len(p) > 3 else "")
        problems = []
        obs = {"headers_x_styles": 1, "macros_defined": len(final), "macros_emitted": len(emitted_macros), "macro_values_compared": 0,
               "enumerators_compared": 0, "const_vars_compared": 0, "macros_omitted": 0, "style." + style: 1}
        for n, m in final.items():
            if m["kind"] == "hostile":
                continue
            if n not in rm:
                obs["macros_omitted"] += 1
                continue
            if n not in cm:
                continue
            obs["macro_values_compared"] += 1
            p = macro_mismatch(n, m, cm[n], rm[n])
            if p:
                problems.append(p)
        for n, c, kind in cinfo:
            if n in rm and n in cm:
                obs["const_vars_compared"] += 1
                p = macro_mismatch(n, {"kind": kind, "text": c}, cm[n], rm[n], strict_type=True)
                if p:
                    problems.append(p)
        for en, vals in einfo:
            for vn, vv in vals:
                if vn in re_ and vn in ce:
                    obs["enumerators_compared"] += 1
                    desc, val = re_[vn]
                    k, sg, sz = desc.split("/")
                    cs, cu = ce[vn]
                    want = str(cs) if sg == "1" else str(cu)
                    if val != want:
                        problems.append(("enumerator %s: C value %s, Rust value %s (%s)" % (vn, cs if cs == cu or cs < 0 else cu, val, desc), None))
                    if en and en in cet:
                        csz, csg = cet[en]
                        if int(sz) != csz or int(sg) != csg:
                            problems.append(("enum %s: C underlying type is %d bytes %s, Rust representation is %s bytes %s (style %s)" % (
                                en, csz, "signed" if csg else "unsigned", sz, "signed" if sg == "1" else "unsigned", style), "c05.enum-repr:" + ("w" if int(sz) != csz else "s")))
                elif enum_paths.get(vn) is None and vn in ce:
                    problems.append(("enumerator %s is not emitted" % vn, None))
        if problems:
            by_sig = {}
            for text_, sig in problems:
                by_sig.setdefault(sig, []).append(text_)
            for sig, lst in by_sig.items():
                out.append(Verdict(VIOLATED, cname, "\n".join(lst[:10]), files=files, obs=obs if sig is None else {}, signature=sig))
            if None not in by_sig:
                out.append(Verdict(HELD, cname + "-obs", obs=obs, nontrivial=True, key=cname))
        else:
            out.append(Verdict(HELD, cname, obs=obs, nontrivial=obs["macro_values_compared"] + obs["enumerators_compared"] >= 2, key=cname,
                               sample={"macros": [(m["name"], m["text"]) for m in list(final.values())[:6]], "flags": flags, "compared": obs["macro_values_compared"]} if i % 29 == 0 else None))
    return out


def rustc_sig(se):
    return None


def macro_mismatch(n, m, c, r, strict_type=False):
    """c = (class, value) from clang; r = (desc, value) from Rust. Returns (text, signature) or None."""
    ccls, cval = c
    rdesc, rval = r
    if ccls == "str" or rdesc == "str":
        if ccls != "str" or rdesc != "str":
            return ("%s: C says %s, Rust says %s" % (n, c, r), None)
        if cval != rval:
            return ("string %s: C bytes %s, Rust bytes %s" % (n, cval, rval), None)
        return None
    ck, cs, csz = ccls.split("/") if "/" in ccls else (ccls, "0", "0")
    rk, rsg, rsz = rdesc.split("/")
    if ck == "float" or rk == "float":
        if ck != rk:
            # an integer-valued macro emitted as float or vice versa
            return ("%s: C class %s value %s, Rust %s value %s" % (n, ccls, cval, rdesc, rval), None)
        cd = struct.unpack("<d", struct.pack("<Q", int(cval[1:], 16)))[0]
        if rval.startswith("d"):
            rd = struct.unpack("<d", struct.pack("<Q", int(rval[1:], 16)))[0]
        else:
            rd = struct.unpack("<f", struct.pack("<I", int(rval[1:], 16)))[0]
        if cd != rd and not (cd != cd and rd != rd):
            if rsz == "4" and abs(cd - rd) <= abs(cd) * 1e-6:
                return None
            return ("float %s: C value %r, Rust value %r" % (n, cd, rd), None)
        return None
    if ck == "bool" or rk == "bool":
        cv_ = int(cval)
        rv = int(rval)
        return None if cv_ == rv else ("%s: C %s Rust %s" % (n, cval, rval), None)
    cv_, rv = int(cval), int(rval)
    if cv_ != rv:
        sig = None
        if m.get("redef"):
            return ("%s is #undef'd and redefined as %s: C value %s, Rust value %s (first definition)" % (n, m.get("text"), cval, rval),
                    "c05.redefined-macro-keeps-first-definition")
        if rdesc == "int/0/1" and cv_ < 0 and rv == cv_ + 256 and "'" in str(m.get("text")):
            return ("%s = %s: C value %s (int), Rust value %s (u8)" % (n, m.get("text"), cval, rval), "c05.char-literal-as-unsigned-byte")
        if cs == "0" and cv_ >= 2 ** 63 and rv == cv_ - 2 ** 64:
            sig = "c05.unsigned-64-bit-macro-wraps-negative"
        elif m.get("unsigned") and (m.get("v64") is None or m.get("v64") == rv):
            # unsigned operands took part and Rust's value is what untyped wrapping-i64 evaluation gives (or casts/sizeof make that unknown)
            sig = "c05.macro-evaluated-in-wrapping-i64"
        return ("%s = %s: C value %s (%s), Rust value %s (%s)" % (n, m.get("text"), cval, ccls, rval, rdesc), sig)
    # type can hold it with the same sign: value equality through a typed read already shows representability; sign of the type:
    if cv_ < 0 and rsg == "0":
        return ("%s: negative value %s in unsigned Rust type %s" % (n, cval, rdesc), None)
    if strict_type and (cs != rsg or csz != rsz):
        return ("const variable %s: C type %s, Rust type %s" % (n, ccls, rdesc), None)
    return None


def run(chk):
    chk.map(lambda i: case(chk, i), range(chk.pick(60, 600)), budget_s=chk.pick(500, 3000))
    return chk.finish(
        rule="case = (generated header of 8..30 object-like macros from a typed expression grammar — literals of every base and suffix, char and "
             "string literals with escapes, floats incl. hex floats, unary/binary/ternary operators, casts, sizeof, references to earlier "
             "macros, #undef + redefinition, plus 'hostile' bodies —, 1..4 enums (negative, duplicate, > 32-bit, fixed underlying types, "
             "unnamed) and const variables of every scalar kind, enum style x macro-typing option). A clang-compiled C program prints class "
             "(_Generic), width, signedness and value of every macro / enumerator / const; a rustc-compiled program prints the same for every "
             "constant bindgen emitted (trait inference, no type spelling). Omitted macros are counted, never failed. Non-trivial = >= 2 values compared.",
        assumptions=["clang 14 LP64 host is the definition of the C value; my evaluator only keeps generated expressions UB-free",
                     "a float macro emitted as f64 is compared as double"])
