"""C04 — functions and globals bind the right symbol with a call-compatible signature."""
import os
import re

from .. import build, hfuncs, probes
from ..core import HELD, INCONCLUSIVE, VIOLATED, Verdict, write
from ..core import run as sh
from ..htypes import RUSTC_FLAGS, inventory

LEVEL = "exploration"
OPTSETS = [("default", []), ("merge-sort", ["--merge-extern-blocks", "--sort-semantically"]), ("attr-detect", ["--enable-function-attribute-detection"]),
           ("enum-rust", ["--default-enum-style", "rust"]), ("enum-newtype", ["--default-enum-style", "newtype"]), ("old-target", ["--rust-target", "1.70"]),
           ("derives", ["--with-derive-default", "--with-derive-partialeq"]), ("array-ptr", ["--use-array-pointers-in-arguments"]),
           ("no-size_t", ["--no-size_t-is-usize"]), ("use-core", ["--use-core"]), ("alias-newtype", ["--default-alias-style", "new_type"]),
           ("merge-only", ["--merge-extern-blocks"]), ("merge-override", ["--merge-extern-blocks", "--override-abi", "fn[0-9]*[13579]=C-unwind"]),
           ("override-some", ["--override-abi", "fn[0-9]*[02468]=C-unwind"]),
           ("opaque-agg", ["--opaque-type", "Ag.*"])]


def norm_desc(d):
    """kind/signed/size tokens -> comparable form (enum <-> int by signedness and size; cptr distinguishes constness)"""
    out = []
    for tok in d.split():
        if tok in ("<-", "void"):
            out.append(tok)
            continue
        p = tok.split("/")
        if p[0] == "record":
            out.append(tok)
        elif p[0] in ("enum",):
            out.append("int/%s/%s" % (p[1], p[2]))
        elif p[0] == "bool":
            out.append("bool/0/1")
        else:
            out.append(tok)
    return " ".join(out)


def case(chk, i):
    rng = chk.rng("lib", i)
    lib = hfuncs.generate(rng)
    d = chk.dir("l%d" % (i % 48))
    for f in os.listdir(d):
        try:
            os.unlink(os.path.join(d, f))
        except OSError:
            pass
    hdr = write(os.path.join(d, "h.h"), hfuncs.header(lib))
    csrc = write(os.path.join(d, "impl.c"), hfuncs.impl_c(lib))
    obj = os.path.join(d, "impl.o")
    rc, so, se, _ = sh(["clang", "-w", "-O1", "-c", csrc, "-o", obj, "-I", d], timeout=120)
    if rc != 0:
        return Verdict(INCONCLUSIVE, "lib-%d" % i, "clang rejects generated library: " + se[:600])
    rc, nm, se, _ = sh(["llvm-nm", "-g", "--defined-only", obj], timeout=60)
    defined = set(l.split()[-1] for l in nm.splitlines() if l.strip())
    exp = hfuncs.expected_lines(lib)
    out = []
    sets = [OPTSETS[0]] + chk.rng("opts", i).sample(OPTSETS[1:], chk.pick(2, 5))
    if i % 5 == 0 and OPTSETS[-1] not in sets:
        sets.append(OPTSETS[-1])
    for oname, flags in sets:
        cname = "lib-%d-%s" % (i, oname)
        b = os.path.join(d, "b_%s.rs" % oname)
        rc, so, se, _ = sh([build.BINDGEN, hdr] + flags + ["-o", b], timeout=120, cpu=100)
        files = {"h.h": open(hdr).read(), "impl.c": open(csrc).read(), "flags.txt": " ".join(flags)}
        if rc != 0:
            out.append(Verdict(INCONCLUSIVE, cname, "bindgen failed: " + se[-300:]))
            continue
        inv = inventory(b)
        if "error" in inv:
            out.append(Verdict(VIOLATED, cname, "bindings do not parse: " + inv["error"], files=files))
            continue
        files["bindings.rs"] = open(b).read()
        # decided from the declarations alone (the caller could not even name a `!` return value): a function that returns is never `-> !`
        never = [m["name"] for it in inv["items"] if it["kind"] == "extern_block" for m in it["members"]
                 if m["kind"] == "foreign_fn" and m["sig"].rstrip().endswith("-> !")]
        wrong = [fn.name for fn in lib.fns if not getattr(fn, "noreturn", False) and fn.name in never]
        if wrong:
            out.append(Verdict(VIOLATED, cname, "function(s) %s return in C but are declared `-> !`" % wrong, files=files))
            continue
        view = probes.RustView(inv)
        src, info = hfuncs.emit_rs(lib, view, b, None)
        prs = write(os.path.join(d, "caller_%s.rs" % oname), src)
        files["caller.rs"] = src
        exe = os.path.join(d, "caller_%s" % oname)
        rc, so, se, _ = sh(["rustc"] + RUSTC_FLAGS + [prs, "-C", "link-arg=" + obj, "-o", exe], timeout=300)
        problems = []
        obs = {"libraries_x_optsets": 1, "functions": len(lib.fns), "globals": len(lib.globals), "calls": 0, "values_compared": 0,
               "signatures_compared": 0, "symbols_checked": 0,
               "functions_taking_inline_noreturn_handlers": sum(1 for fn in lib.fns if any(p_ is hfuncs.NRH for p_ in fn.params)),
               "typeof_pointers_compared_with_their_function": info.get("typeof_pointers", 0)}
        if rc != 0:
            locs = re.findall(r"^error[^\n]*\n\s*--> (\S+?):\d+:\d+", se, re.M)
            if "undefined symbol" in se or "undefined reference" in se:
                syms = sorted(set(re.findall(r"undefined (?:symbol|reference to)[: `']+([^\s'`]+)", se)))
                out.append(Verdict(VIOLATED, cname, "bindings refer to symbols the C compiler did not emit: %s (defined: %s)" % (syms[:5], sorted(defined)[:12]),
                                   files=files, obs=obs, signature=asm_sig(lib, syms)))
                continue
            if "vf_same(" in se:
                out.append(Verdict(VIOLATED, cname, "a pointer declared `__typeof__(f) *` is not bound with f's own signature: " + se[:700], files=files, obs=obs))
                continue
            if any(l.endswith("/b_%s.rs" % oname) for l in locs):
                out.append(Verdict(INCONCLUSIVE, cname, "bindings do not compile (C01's): " + se[:400]))
            else:
                out.append(Verdict(INCONCLUSIVE, cname, "caller does not compile (harness): " + se[:600]))
            continue
        rc, so, se, _ = sh([exe], timeout=60)
        files["out.txt"] = so[-20000:]
        if rc != 0:
            sig = None
            if oname == "opaque-agg" and any(any(ft.kind == "float" for _, ft, _, _ in r.fields) for r in lib.recs):
                sig = "c04.opaque-float-aggregate-by-value"      # a mis-passed callback pointer or aggregate makes the callee fault
            out.append(Verdict(VIOLATED, cname, "calling through the bindings crashed (rc=%s): %s" % (rc, se[-400:]), files=files, obs=obs, signature=sig))
            continue
        lines = {}
        csig, rsig, gdecl, rabi = {}, {}, {}, {}
        rabi_decl = {}
        for it in inv["items"]:
            if it["kind"] == "extern_block":
                for m in it["members"]:
                    if m["kind"] == "foreign_fn":
                        rabi_decl[m["name"]] = m["sig"]
        called = []
        for line in so.splitlines():
            p = line.split(" ", 1)
            if p[0] == "CSIG":
                n, dsc = p[1].split(" ", 1)
                csig[n] = dsc
            elif p[0] == "SIG":
                n, dsc = p[1].split(" ", 1)
                rsig[n] = dsc
            elif p[0] == "CALL":
                called.append(p[1])
            elif p[0] == "ABI":
                n, a_ = p[1].split(" ")
                rabi[n] = a_
            elif p[0] == "GDECL":
                n, m = p[1].split(" ")
                gdecl[n] = m
            elif len(p) == 2:
                lines.setdefault(p[0], []).append(p[1])
        obs["calls"] = len(called)
        # every bound function was reached under its own name
        for fn in lib.fns:
            if (fn.name, "no binding") in info["skipped"]:
                problems.append("function %s got no binding" % fn.name)
            elif fn.name not in called:
                problems.append("calling %s through the bindings did not reach the C function %s" % (fn.name, fn.name))
        for label, want in exp.items():
            got = lines.get(label)
            if got is None:
                if any(label.startswith(n + ".") for n, w in info["skipped"]):
                    continue
                problems.append("%s: expected %s, nothing observed" % (label, want))
                continue
            obs["values_compared"] += 1
            if any(g != want for g in got):
                problems.append("%s: passed/expected %s, other side saw %s" % (label, want, got[0]))
        # functions that do not return: declared `-> !`, reached with their arguments, and never came back
        for fn in lib.fns:
            if getattr(fn, "noreturn", False) and fn.name in rabi_decl:
                obs["noreturn_functions"] = obs.get("noreturn_functions", 0) + 1
                # (`_Noreturn` is only recognised under --enable-function-attribute-detection; declaring such a function `-> ()` is
                # call-compatible, so only the count is recorded)
                if rabi_decl[fn.name].rstrip().endswith("-> !"):
                    obs["noreturn_declared_never"] = obs.get("noreturn_declared_never", 0) + 1
                if "NORETURN-RETURNED %s" % fn.name in so:
                    problems.append("call of noreturn function %s returned" % fn.name)
        for fn in lib.fns:
            if not getattr(fn, "noreturn", False) and fn.name in rabi_decl and rabi_decl[fn.name].rstrip().endswith("-> !"):
                problems.append("function %s returns in C but is declared `-> !`" % fn.name)
        # the calling convention each function is declared with: what C declares, unless an --override-abi pattern names the function
        ov = None
        if "--override-abi" in flags:
            pat, ovabi = flags[flags.index("--override-abi") + 1].rsplit("=", 1)
            ov = (re.compile("^(?:%s)$" % pat), ovabi)
        for fn in lib.fns:
            if fn.name not in rabi:
                continue
            want_abi = "win64" if getattr(fn, "abi", None) == "ms_abi" else "C"
            if ov and ov[0].match(fn.name):
                want_abi = ov[1]
            obs["abis_checked"] = obs.get("abis_checked", 0) + 1
            if rabi[fn.name] != want_abi:
                problems.append("function %s is declared in an extern \"%s\" block, its calling convention is \"%s\"" % (fn.name, rabi[fn.name], want_abi))
        for n, dsc in rsig.items():
            if n in csig:
                obs["signatures_compared"] += 1
                if norm_desc(dsc) != norm_desc(csig[n]):
                    problems.append("declared signature of %s: Rust `%s`, C `%s`" % (n, dsc, csig[n]))
        # globals: values both ways, mutability
        for n, t, const in lib.globals:
            if n not in gdecl:
                problems.append("global %s got no binding" % n)
                continue
            obs["symbols_checked"] += 1
            if const and gdecl[n] != "mutable=false":
                problems.append("const global %s is declared `static mut`" % n)
            if not const and gdecl[n] != "mutable=true":
                problems.append("non-const global %s is declared immutable" % n)
            if t.kind != "record":
                want = hfuncs.fmt_value(t, hfuncs.val_for(t, "global." + n))
                got = lines.get("GR." + n, [None])[0]
                obs["values_compared"] += 1
                if got != want:
                    problems.append("global %s read through the bindings: %s, C initialised it to %s" % (n, got, want))
                if not const:
                    want2 = hfuncs.fmt_value(t, hfuncs.val_for(t, "gw." + n))
                    got2 = lines.get("G." + n, [None])[0]
                    obs["values_compared"] += 1
                    if got2 != want2:
                        problems.append("global %s written through the bindings: C reads %s, Rust wrote %s" % (n, got2, want2))
        if problems:
            sig = None
            if oname == "opaque-agg" and any(any(ft.kind == "float" for _, ft, _, _ in r.fields) for r in lib.recs) and all(
                    re.match(r"fn\d+\.(a\d+|ret)", p) for p in problems):
                sig = "c04.opaque-float-aggregate-by-value"
            out.append(Verdict(VIOLATED, cname, "\n".join(problems[:12]), files=files, obs=obs, signature=sig))
        else:
            out.append(Verdict(HELD, cname, obs=obs, nontrivial=obs["calls"] >= 1, key=cname,
                               sample={"header": open(hdr).read()[:900], "flags": flags, "calls": obs["calls"], "values": obs["values_compared"]} if i % 19 == 0 and oname == "default" else None))
        try:
            os.unlink(exe)
        except OSError:
            pass
    return out


XTARGETS = ["x86_64-apple-darwin", "i686-pc-windows-msvc", "x86_64-pc-windows-msvc", "i686-unknown-linux-gnu", "aarch64-apple-darwin",
            "x86_64-unknown-linux-gnu"]
SZ32 = {"char": 1, "short": 2, "int": 4, "long long": 8, "double": 8, "float": 4, "void *": 4, "unsigned char": 1}


def cross_case(chk, i):
    """symbol names on non-host targets: text only (clang --target -c + llvm-nm vs an 8-line model of platform mangling)"""
    rng = chk.rng("cross", i)
    d = chk.dir("x%d" % (i % 32))
    decls = []      # (c_name, kind, text_decl, text_def, cc, argbytes32)
    names = ["plain", "type", "fn", "match", "a$b", "ok_name", "self", "x1", "mod"]
    rng.shuffle(names)
    for k in range(rng.randint(3, 8)):
        n = names[k] + ("_%d" % k if names[k] in ("plain", "ok_name", "x1") else "")
        if rng.random() < 0.25:
            # labels unrelated to the name, and labels that are the name itself / the name with a prefix and/or a tail
            # (what target mangling would produce, or nearly): the binding must reach exactly the label on every target
            label = rng.choice(["real_%d" % k, "_lead_%d" % k, "with$d_%d" % k, "_" + n, n, "_%s_v2" % n, n + "_tail", "_%s@4" % n, "__" + n])
            if rng.random() < 0.5:
                decls.append((n, "var", 'extern int %s __asm__("%s");' % (n, label), 'int %s __asm__("%s") = 1;' % (n, label), "C", 0))
            else:
                decls.append((n, "fn", 'int %s(int) __asm__("%s");' % (n, label), 'int %s(int) __asm__("%s"); int %s(int a) { return a; }' % (n, label, n), "C", 4))
        elif rng.random() < 0.2:
            decls.append((n, "var", "extern long long %s;" % n, "long long %s = 2;" % n, "C", 0))
        else:
            cc = rng.choice(["C", "C", "stdcall", "fastcall"])
            ps = [rng.choice(list(SZ32)) for _ in range(rng.randint(0, 4))]
            at = "" if cc == "C" else "__attribute__((%s)) " % cc
            sig = ", ".join("%s p%d" % (t, j) for j, t in enumerate(ps)) or "void"
            ab = sum((SZ32[t] + 3) // 4 * 4 for t in ps)
            decls.append((n, "fn", "int %s%s(%s);" % (at, n, sig), "int %s%s(%s) { return 0; }" % (at, n, sig), cc, ab))
    hdr = write(os.path.join(d, "x%d.h" % i), "\n".join(x[2] for x in decls) + "\n")
    out = []
    for t in rng.sample(XTARGETS, chk.pick(2, 6)):
        cname = "cross-%d-%s" % (i, t)
        b = os.path.join(d, "xb.rs")
        rc, so, se, _ = sh([build.BINDGEN, hdr, "--no-layout-tests", "-o", b, "--", "--target=" + t, "-ffreestanding"], timeout=60, cpu=60)
        if rc != 0:
            out.append(Verdict(INCONCLUSIVE, cname, "bindgen failed: " + se[-200:]))
            continue
        inv = inventory(b)
        bound = {}
        for it in inv["items"]:
            if it["kind"] == "extern_block":
                for m in it["members"]:
                    bound[m["name"]] = (it["abi"], m.get("link_name"), m["kind"])
        problems, nsym = [], 0
        for (n, kind, decl, defn, cc, ab) in decls:
            src = write(os.path.join(d, "one.c"), defn + "\n")
            rc, so, se, _ = sh(["clang", "--target=" + t, "-ffreestanding", "-w", "-c", src, "-o", os.path.join(d, "one.o")], timeout=60)
            if rc != 0:
                continue
            rc, nm, se, _ = sh(["llvm-nm", "-g", "--defined-only", os.path.join(d, "one.o")], timeout=30)
            syms = [l.split()[-1] for l in nm.splitlines() if l.strip()]
            if len(syms) != 1:
                continue
            true_sym = syms[0]
            # the binding: Rust name is the C name, mangled with a trailing underscore when it is a keyword / contains '$'
            cands = [n, n + "_", n.replace("$", "_") + "_"]
            bn = [c for c in cands if c in bound]
            if not bn:
                problems.append("%s `%s` got no binding for target %s" % (kind, n, t))
                continue
            abi, link, k2 = bound[bn[0]]
            nsym += 1
            eff_cc = cc if t.startswith("i686") else "C"
            want_abi = {"C": "C", "stdcall": "stdcall", "fastcall": "fastcall"}[eff_cc] if kind == "fn" else abi
            if kind == "fn" and abi != want_abi:
                problems.append("function %s: calling convention %s declared as extern \"%s\" for %s" % (n, eff_cc, abi, t))
            base = link if link is not None else bn[0]
            if base.startswith("\x01"):
                pred = base[1:]
            else:
                macho = "apple" in t
                win32 = t.startswith("i686") and "windows" in t
                if kind == "fn" and win32 and abi == "stdcall":
                    pred = "_%s@%d" % (base, ab)
                elif kind == "fn" and win32 and abi == "fastcall":
                    pred = "@%s@%d" % (base, ab)
                elif macho or win32:
                    pred = "_" + base
                else:
                    pred = base
            if pred != true_sym:
                problems.append("%s `%s` for %s: the binding (abi %s, link_name %r) resolves to symbol `%s`, clang emits `%s`" % (kind, n, t, abi, link, pred, true_sym))
        obs = {"cross_target_runs": 1, "cross_symbols_checked": nsym, "xtarget." + t: 1}
        if problems:
            out.append(Verdict(VIOLATED, cname, "\n".join(problems[:8]), files={"x.h": open(hdr).read(), "bindings.rs": open(b).read()}, obs=obs))
        else:
            out.append(Verdict(HELD, cname, obs=obs, nontrivial=nsym >= 2, key=cname))
    return out


def asm_sig(lib, syms):
    return None


def run(chk):
    chk.map(lambda i: case(chk, i), range(chk.pick(40, 400)), budget_s=chk.pick(500, 3000))
    chk.map(lambda i: cross_case(chk, i), range(chk.pick(30, 300)), budget_s=chk.pick(200, 900))
    chk.map(lambda i: cxx_case(chk, i), range(chk.pick(16, 240)), budget_s=chk.pick(300, 1500))
    return chk.finish(
        rule="case = (generated C library, option set): functions over every scalar kind, _Bool, char signedness, enums, typedefs, pointers with "
             "const and non-const pointees, array parameters, by-value structs/unions shaped to straddle the SysV classes (all-int, all-float, "
             "two-double, mixed, float+int, > 16 bytes, arrays, bit-fields, 1 byte), callbacks handed out by C, variadic tails, __asm__ labels; "
             "globals const and non-const. One executable links clang's object with a Rust caller generated from the model: every argument "
             "value is fixed by the orchestrator, the C callee prints what arrived, the Rust side prints returns, globals are read and written "
             "on both sides; declared parameter/return kinds, signedness and widths are recovered from the bindings through trait inference "
             "on the function item and compared with C's; non-trivial = at least one call went through. "
             "C++ case = (generated class library: const / non-const / static / virtual / overloaded methods, overloaded constructors, "
             "destructors, single inheritance, 0-2 namespaces, by-value aggregates in register and memory class as parameters and returns, "
             "option set): the symbol of every member function is taken from clang++'s object (llvm-nm, demangled signature), each binding is "
             "located by its link_name, and a Rust driver (once through the extern fns, once through the generated wrapper methods) repeats the "
             "qualified calls of a C++ driver: the callee prints receiver fields and arguments, the drivers print returns; transcripts must "
             "agree step by step; bindings naming a symbol clang++ did not emit, two bindings on one symbol, a wrong receiver constness "
             "or a receiver on a static method are violations.",
        assumptions=["calls are executed on the x86_64 SysV host only; for apple-darwin / windows-msvc (cdecl, stdcall, fastcall) / i686 targets the "
                     "symbol each binding resolves to is predicted from (abi, link_name, name) with a small model of LLVM's platform mangling "
                     "and compared with `clang --target -c` + llvm-nm, per declaration",
                     "a noreturn function (30% of the libraries) is called last and leaves through exit(0): its arguments are compared, a return is a violation, "
                     "and a function that does return must never be declared `-> !`; C++ member functions are called non-virtually (the binding names one function); "
                     "objects are moved by memcpy between construction and use, as the generated `new()` wrappers do"])


CXX_OPTSETS = [("default", []), ("namespaces", ["--enable-cxx-namespaces"]), ("merge-sort", ["--merge-extern-blocks", "--sort-semantically"]),
               ("ns-merge", ["--enable-cxx-namespaces", "--merge-extern-blocks"]), ("old-target", ["--rust-target", "1.70"]),
               ("no-layout", ["--no-layout-tests", "--with-derive-default"]),
               # --override-abi names members by their unqualified C++ name (methods, static methods, constructors by the class name)
               ("override-members", ["--override-abi", "m[0-9]|get|type|match|K[0-9]=C-unwind"]),
               ("override-members-ns", ["--enable-cxx-namespaces", "--override-abi", "m[0-9]|set|drop|clone|self_=C-unwind", "--merge-extern-blocks"])]


def cxx_case(chk, i):
    """C++ classes: every member function the bindings declare reaches its mangled symbol with the right receiver and arguments
    (transcript of a Rust driver == transcript of a C++ driver making the same qualified calls)"""
    from .. import hcxx
    rng = chk.rng("cxx", i)
    lib = hcxx.generate(rng)
    d = chk.dir("k%d" % (i % 32))
    for f in os.listdir(d):
        try:
            os.unlink(os.path.join(d, f))
        except OSError:
            pass
    hdr = write(os.path.join(d, "h.hpp"), hcxx.header(lib))
    isrc = write(os.path.join(d, "impl.cpp"), hcxx.impl(lib))
    dsrc = write(os.path.join(d, "driver.cpp"), hcxx.driver_cpp(lib))
    obj = os.path.join(d, "impl.o")
    name = "cxx-%d" % i
    rc, so, se, _ = sh(["clang++", "-std=c++14", "-w", "-O1", "-c", isrc, "-o", obj, "-I", d], timeout=120)
    if rc != 0:
        return Verdict(INCONCLUSIVE, name, "clang++ rejects the generated class library: " + se[:500])
    rc, so, se, _ = sh(["clang++", "-std=c++14", "-w", "-O1", dsrc, obj, "-o", os.path.join(d, "driver"), "-I", d], timeout=120)
    if rc != 0:
        return Verdict(INCONCLUSIVE, name, "clang++ rejects the generated driver: " + se[:500])
    rc, want, se, _ = sh([os.path.join(d, "driver")], timeout=60)
    if rc != 0:
        return Verdict(INCONCLUSIVE, name, "C++ driver failed rc=%s" % rc)
    rc, nm, se, _ = sh(["llvm-nm", "-g", "--defined-only", obj], timeout=60)
    rc2, nmd, se, _ = sh(["llvm-nm", "-g", "--defined-only", "-C", obj], timeout=60)
    mang = [l.split()[-1] for l in nm.splitlines() if l.strip()]
    dem = [l.split(None, 2)[-1] for l in nmd.splitlines() if l.strip()]
    if len(mang) != len(dem):
        return Verdict(INCONCLUSIVE, name, "llvm-nm listings differ in length")
    by_dem = {}
    for m_, d_ in zip(mang, dem):
        by_dem.setdefault(d_, []).append(m_)
    defined = set(mang)
    symbol = {}
    for k in lib.classes:
        for mi, m in enumerate(k.methods):
            cands = by_dem.get(hcxx.demangled(k, m), [])
            if m.kind == "ctor":
                cands = [c for c in cands if "C1E" in c]
            elif m.kind == "dtor":
                cands = [c for c in cands if "D1Ev" in c]
            if len(cands) != 1:
                return Verdict(INCONCLUSIVE, name, "cannot identify the symbol of %s (candidates %s)" % (hcxx.demangled(k, m), cands))
            symbol[(k.qual, mi)] = cands[0]
    out = []
    sets = [CXX_OPTSETS[0]] + chk.rng("cxxopts", i).sample(CXX_OPTSETS[1:], chk.pick(2, 4))
    for oname, flags in sets:
        cname = "%s-%s" % (name, oname)
        b = os.path.join(d, "b_%s.rs" % oname)
        rc, so, se, _ = sh([build.BINDGEN, hdr] + flags + ["-o", b, "--", "-x", "c++", "-std=c++14"], timeout=120, cpu=100)
        files = {"h.hpp": open(hdr).read(), "impl.cpp": open(isrc).read(), "driver.cpp": open(dsrc).read(), "flags.txt": " ".join(flags)}
        if rc != 0:
            out.append(Verdict(INCONCLUSIVE, cname, "bindgen failed: " + se[-300:]))
            continue
        inv = inventory(b)
        if "error" in inv:
            out.append(Verdict(VIOLATED, cname, "bindings do not parse: " + inv["error"], files=files))
            continue
        files["bindings.rs"] = open(b).read()
        ext = {}          # symbol -> (path, sig, name)
        dangling = []
        for it in inv["items"]:
            if it["kind"] != "extern_block":
                continue
            for m in it["members"]:
                if m["kind"] != "foreign_fn":
                    continue
                ln = m.get("link_name")
                sym = ln[1:] if ln and ln.startswith("\x01") else (ln or m["name"])
                if sym not in defined:
                    dangling.append("%s -> %s" % (m["name"], sym))
                ext.setdefault(sym, []).append(("b" + it["module"][4:] + "::" + m["name"], m["sig"], m["name"], it["abi"]))
        impls = [it for it in inv["items"] if it["kind"] == "impl" and it.get("trait") is None]
        structs = {}
        for it in inv["items"]:
            if it["kind"] == "struct":
                structs[("b" + it["module"][4:] + "::" + it["name"])] = it
        problems = []
        if dangling:
            problems.append("bindings refer to symbols clang++ did not emit: %s" % dangling[:6])
        dup = {s_: v for s_, v in ext.items() if len(v) > 1}
        if dup:
            problems.append("several bindings name the same symbol: %s" % {s_: [x[2] for x in v] for s_, v in list(dup.items())[:3]})

        def resolve(k, mi):
            sym = symbol[(k.qual, mi)]
            if sym not in ext:
                return None
            path, sig, nm_, abi = ext[sym][0]
            # the class type: from the constructor's `this` parameter
            ty = None
            for ci, cm in enumerate(k.methods):
                if cm.kind == "ctor" and symbol[(k.qual, ci)] in ext:
                    mm = re.search(r"this : \* mut ([^,)]+?) [,)]", ext[symbol[(k.qual, ci)]][0][1])
                    if mm:
                        t_ = mm.group(1).replace(" ", "")
                        ty = "b::" + t_
                        break
            if ty is None:
                return None
            wrapper = None
            for im in impls:
                if ("b" + im["module"][4:] + "::" + im["self_ty"].replace(" ", "")) == ty or (im["self_ty"].replace(" ", "") == ty.split("::")[-1]):
                    for seg in im["tokens"].split("pub unsafe fn ")[1:]:
                        if re.search(r"\b%s \(" % re.escape(nm_), seg.split("{", 1)[1] if "{" in seg else ""):
                            wrapper = seg.split(" ", 1)[0].split("(")[0].strip()
            pods = {}
            for p in lib.pods:
                pods[p.name] = "b::" + ("root::" if "--enable-cxx-namespaces" in flags else "") + p.name
            return {"ext": path, "wrapper": wrapper, "ty": ty, "fields": {}, "pods": pods, "sig": sig, "abi": abi}

        obs = {"cxx_libraries_x_optsets": 1, "cxx_member_functions": sum(len(k.methods) for k in lib.classes), "cxx_bound": 0, "cxx_unbound": 0,
               "cxx_calls_compared": 0, "cxx_receiver_constness_checked": 0}
        # receiver constness and ABI
        for k in lib.classes:
            for mi, m in enumerate(k.methods):
                r = resolve(k, mi)
                if r is None:
                    obs["cxx_unbound"] += 1
                    continue
                obs["cxx_bound"] += 1
                want_abi = "C"
                if "--override-abi" in flags:
                    pat_, ab_ = flags[flags.index("--override-abi") + 1].rsplit("=", 1)
                    cxx_name = k.name if m.kind == "ctor" else m.name
                    if m.kind != "dtor" and re.fullmatch(pat_, cxx_name):
                        want_abi = ab_
                    obs["cxx_override_abi_checked"] = obs.get("cxx_override_abi_checked", 0) + 1
                if r["abi"] != want_abi:
                    problems.append("%s declared with abi %s, expected %s" % (hcxx.demangled(k, m), r["abi"], want_abi))
                if m.kind == "method" and not m.static and not m.virtual:
                    obs["cxx_receiver_constness_checked"] += 1
                    want_recv = "* const" if m.const else "* mut"
                    if ("this : %s " % want_recv) not in r["sig"]:
                        problems.append("%s: receiver should be `%s` in `%s`" % (hcxx.demangled(k, m), want_recv, r["sig"][:120]))
                if m.static and "this :" in r["sig"]:
                    problems.append("static %s declared with a receiver" % hcxx.demangled(k, m))
        if problems:
            out.append(Verdict(VIOLATED, cname, "\n".join(problems[:6]), files=files, obs=obs))
            continue
        both = []
        for use_wrappers in (False, True):
            src, skipped = hcxx.driver_rs(lib, b, resolve, use_wrappers)
            prs = write(os.path.join(d, "drv_%s_%d.rs" % (oname, use_wrappers)), src)
            exe = os.path.join(d, "drv_%s_%d" % (oname, use_wrappers))
            rc, so, se, _ = sh(["rustc"] + RUSTC_FLAGS + [prs, "-C", "link-arg=" + obj, "-C", "link-arg=-lstdc++", "-o", exe], timeout=300)
            files["driver_%d.rs" % use_wrappers] = src
            if rc != 0:
                locs = re.findall(r"^error[^\n]*\n\s*--> (\S+?):\d+:\d+", se, re.M)
                if "undefined symbol" in se or "undefined reference" in se:
                    both.append(("violation", "link failure: " + se[-600:]))
                elif any(l.endswith("/b_%s.rs" % oname) for l in locs):
                    both.append(("inconclusive", "bindings do not compile (C01's): " + se[:400]))
                else:
                    both.append(("inconclusive", "driver does not compile (harness): " + se[:900]))
                continue
            rc, got, se, _ = sh([exe], timeout=60)
            files["got_%d.txt" % use_wrappers] = got[-8000:]
            files["want.txt"] = want[-8000:]
            if rc != 0:
                both.append(("violation", "calling through the bindings crashed (rc=%s) after: %s" % (rc, got.splitlines()[-2:] if got else "")))
                continue
            wl, gl = want.splitlines(), got.splitlines()
            # steps whose function has no binding are skipped on the Rust side: drop those steps from the expectation
            unb = set()
            for (q, mi) in skipped:
                unb.add((q, mi))

            def steps(lines):
                res, cur = [], None
                for l in lines:
                    if l.startswith("STEP "):
                        cur = [l]
                        res.append(cur)
                    elif cur is not None:
                        cur.append(l)
                return res
            ws, gs = steps(wl), steps(gl)
            wmap = {s_[0]: s_[1:] for s_ in ws}
            gmap = {s_[0]: s_[1:] for s_ in gs}
            bad = []
            for key, wv in wmap.items():
                gv = gmap.get(key)
                if gv is None:
                    # a whole object whose constructor is unbound is legitimately absent
                    continue
                if gv == ["UNBOUND"]:
                    continue
                obs["cxx_calls_compared"] += 1
                if gv != wv:
                    bad.append("%s: C++ driver saw %s, Rust driver saw %s" % (key, wv, gv))
            if bad:
                both.append(("violation", "\n".join(bad[:4])))
            else:
                both.append(("held", ""))
        kinds = [x[0] for x in both]
        if "violation" in kinds:
            out.append(Verdict(VIOLATED, cname, [x[1] for x in both if x[0] == "violation"][0][:1800], files=files, obs=obs))
        elif "inconclusive" in kinds:
            out.append(Verdict(INCONCLUSIVE, cname, [x[1] for x in both if x[0] == "inconclusive"][0][:900], obs=obs))
        else:
            out.append(Verdict(HELD, cname, obs=obs, nontrivial=obs["cxx_calls_compared"] >= 2, key=cname))
    return out
