"""C07 — inferred type facts are the least fixed point; declaration order is irrelevant."""
import os
import re

from .. import build, corpus, gen_funcs, gen_graph
from .. import gen_ctypes as G
from ..core import HELD, INCONCLUSIVE, VIOLATED, Verdict, write
from ..core import run as sh
from ..htypes import inventory

LEVEL = "exploration"
DERIVE_FLAGS = ["--with-derive-default", "--with-derive-hash", "--with-derive-partialeq", "--with-derive-eq", "--with-derive-ord",
                "--with-derive-partialord"]
AN = re.compile(r"ANALYSIS name=(\S+) nodes=(\d+) constrain_calls=(\d+) changed=(\d+) ref_sweeps=(\d+) ref_capped=(\w+) unstable=\[([^\]]*)\]")


def parse_log(text):
    obs = {"analysis_runs": 0, "constrain_calls": 0, "nodes": 0, "ref_sweeps": 0, "unstable_unconsulted": 0, "consultations": 0}
    consulted = []
    capped = []
    for line in text.splitlines():
        m = AN.match(line)
        if m:
            obs["analysis_runs"] += 1
            obs["nodes"] += int(m.group(2))
            obs["constrain_calls"] += int(m.group(3))
            obs["ref_sweeps"] += int(m.group(5))
            if m.group(6) == "true":
                capped.append(m.group(1))
            if m.group(7):
                obs["unstable_unconsulted"] += len(m.group(7).split(","))
        elif line.startswith("FIXPOINT-UNSTABLE-CONSULTED"):
            consulted.append(line)
        elif line.startswith("END consults"):
            for kv in line.split()[2:]:
                obs["consultations"] += int(kv.split("=")[1])
    obs["unstable_unconsulted"] -= len(consulted)
    # hook K5: which unstable nodes are opaque records / opaque typedefs (their rule reads what nobody traces: the recorded finding) and which are
    # ordinary nodes that were simply not re-queued
    unst, kinds = {}, {}
    for line in text.splitlines():
        m = AN.match(line)
        if m and m.group(7):
            unst.setdefault(m.group(1), set()).update(int(x) for x in m.group(7).split(","))
        m = re.match(r"UNSTABLE-ITEM item=(\d+) kind=(\w+) opaque=(\w+)", line)
        if m:
            kinds[int(m.group(1))] = (m.group(2), m.group(3) == "true")
    ann = []
    for line in consulted:
        m = re.search(r"analysis=(\S+) item=(\d+)", line)
        root = any(kinds.get(i) in (("comp", True), ("alias", True)) for i in unst.get(m.group(1), ())) if m else False
        ann.append("%s kind=%s opaque_record_unstable=%s" % (line, "/".join(map(str, kinds.get(int(m.group(2)), ("?", "?")))) if m else "?", "yes" if root else "no"))
    consulted = ann
    return obs, consulted, capped


def hooked(d, tag, cmd_tail, env=None):
    log = os.path.join(d, tag + ".vlog")
    out = os.path.join(d, tag + ".rs")
    for f in (log, out):
        try:
            os.unlink(f)
        except OSError:
            pass
    e = {"BINDGEN_VERIF_LOG": log}
    if env:
        e.update(env)
    rc, so, se, _ = sh([build.BINDGEN] + cmd_tail[:1] + ["-o", out] + cmd_tail[1:], env=e, timeout=180, cpu=150)
    text = open(log).read() if os.path.exists(log) else ""
    return rc, out, se, text


def unstable_signature(consulted, flags, text):
    """has_float looks through opaque types whose members are not traced (recorded finding)."""
    analyses = set(re.findall(r"analysis=(\S+)", "\n".join(consulted)))
    uses_opaque = "--opaque-type" in flags or "rustbindgen opaque" in (text or "") or "--allowlist" in " ".join(flags) and False
    # ... and only when an opaque RECORD is among the unstable nodes of each of those analyses: unstable type references / containers
    # next to a stable opaque record are a different defect (a node that was not re-queued)
    if analyses and analyses <= {"has_float", "has_vtable", "has_destructor", "has_type_param_in_array"} and uses_opaque and all(
            "opaque_record_unstable=yes" in c_ for c_ in consulted):
        return "c07.has_float-through-opaque"
    return None


def corpus_case(chk, i):
    e = corpus.entries()[i]
    d = chk.dir("k%d" % (i % 32))
    name = "corpus-" + os.path.basename(e[0])
    rc, out, se, log = hooked(d, "c%d" % i, corpus.cmdline(e))
    if rc != 0:
        return Verdict(HELD, name, obs={"headers_bindgen_rejects": 1})
    if "BEGIN" not in log:
        return Verdict(INCONCLUSIVE, name, "hook log missing")
    obs, consulted, capped = parse_log(log)
    if capped:
        return Verdict(VIOLATED, name, "reference iteration did not converge within 10000 sweeps for %s (rule not monotone?)" % capped,
                       files={"hook.log": log[-5000:]}, obs=obs)
    if consulted:
        return Verdict(VIOLATED, name, "a fact that is not the fixed point was acted on:\n" + "\n".join(consulted[:8]),
                       files={"hook.log": log[-8000:], "cmd.txt": " ".join(corpus.cmdline(e))}, obs=obs,
                       signature=unstable_signature(consulted, corpus.cmdline(e), open(e[0], errors="replace").read()))
    return Verdict(HELD, name, obs=obs, nontrivial=obs["analysis_runs"] >= 5 and obs["consultations"] > 0, key=name)


def nested_case(chk, i):
    """templates whose members are nested instantiations mixing enclosing parameters, builtins and other templates (facts have to travel
    through template-argument edges), under the fix-point hooks"""
    from .. import gen_graph
    rng = chk.rng("nested", i)
    d = chk.dir("n%d" % (i % 32))
    text = gen_graph.generate_nested(rng)
    hdr = write(os.path.join(d, "n%d.hpp" % i), text)
    flags = rng.choice([[], ["--with-derive-hash", "--with-derive-eq", "--with-derive-ord", "--with-derive-partialeq", "--with-derive-partialord"],
                        ["--with-derive-default"], ["--no-layout-tests", "--impl-debug"]])
    name = "nested-%d" % i
    rc, out, se, log = hooked(d, "n%d" % i, [hdr] + flags + ["--", "-x", "c++", "-std=c++14"])
    if rc != 0:
        return Verdict(HELD, name, obs={"headers_bindgen_rejects": 1})
    if "BEGIN" not in log:
        return Verdict(INCONCLUSIVE, name, "hook log missing")
    obs, consulted, capped = parse_log(log)
    if capped:
        return Verdict(VIOLATED, name, "reference iteration did not converge within 10000 sweeps for %s (rule not monotone?)" % capped,
                       files={"hook.log": log[-5000:], "header.hpp": text}, obs=obs)
    if consulted:
        return Verdict(VIOLATED, name, "a fact that is not the fixed point was acted on:\n" + "\n".join(consulted[:8]),
                       files={"hook.log": log[-8000:], "header.hpp": text, "flags.txt": " ".join(flags)}, obs=obs,
                       signature=unstable_signature(consulted, flags, text))
    obs["nested_template_headers"] = 1
    return Verdict(HELD, name, obs=obs, nontrivial=obs["analysis_runs"] >= 5 and obs["consultations"] > 0, key=name)


def item_view(inv):
    """name -> comparable description of every named type (derives, generics, fields, repr, impls, assertions)."""
    view = {}
    for it in inv["items"]:
        if it["kind"] in ("struct", "union", "enum"):
            nm = it["module"] + "::" + it["name"]
            view[nm] = {"kind": it["kind"], "derives": sorted(it.get("derives", [])), "repr": sorted(it.get("repr", [])),
                        "generics": it.get("generics", []), "fields": [(f["name"], f["ty"]) for f in it.get("fields", [])] if it["kind"] != "enum" else []}
        elif it["kind"] == "impl":
            nm = it["module"] + "::" + it["self_ty"].split("<")[0].strip()
            view.setdefault(nm + "#impls", {"impls": []})["impls"].append((it.get("trait"), sorted(m["name"] for m in it["methods"])))
        elif it["kind"] == "type":
            view[it["module"] + "::type " + it["name"]] = {"ty": it["ty"], "generics": it["generics"]}
    for v in view.values():
        if "impls" in v:
            v["impls"].sort(key=lambda t: str(t))
    asserts = {}
    for a in inv["assertions"]:
        asserts.setdefault(a["ty"], []).append((a["kind"], a["field"], a["value"]))
    for k in asserts:
        asserts[k].sort(key=lambda t: str(t))
    view["#assertions"] = asserts
    return view


def diff_views(a, b):
    out = []
    for k in sorted(set(a) | set(b)):
        if a.get(k) != b.get(k):
            out.append("%s: %s  !=  %s" % (k, str(a.get(k))[:300], str(b.get(k))[:300]))
    return out


def graph_case(chk, i):
    rng = chk.rng("graph", i)
    lang = "cxx" if rng.random() < 0.8 else "c"
    if i % 3 == 2:
        lang = "cxx"
        g = gen_graph.generate_chain(rng)
    else:
        g = gen_graph.generate(rng, lang=lang)
    d = chk.dir("g%d" % (i % 32))
    ext = "hpp" if lang == "cxx" else "h"
    cargs = ["-std=c++17"] if lang == "cxx" else []
    flags = list(DERIVE_FLAGS) + rng.choice([[], ["--impl-debug"], ["--impl-partialeq"], ["--no-layout-tests"], ["--enable-cxx-namespaces"] if lang == "cxx" else []])
    classes = [x.name for x in g.nodes if x.kind == "class"]
    cut = rng.random()
    if cut < 0.2 and classes:
        flags += ["--opaque-type", rng.choice(classes)]
    elif cut < 0.35 and classes:
        b = rng.choice(classes)
        flags += ["--blocklist-type", b, "--raw-line", "#[repr(C)] #[derive(Debug, Copy, Clone)] pub struct %s { _unused: [u8; 0] }" % b]
    elif cut < 0.5 and classes:
        flags += ["--allowlist-type", rng.choice(classes)]
    elif cut < 0.6 and classes:
        flags += ["--no-copy", rng.choice(classes)]
    elif cut < 0.78 and len(classes) >= 2:
        # several allowlisted classes without recursion: what they share (by value) stays outside the allowlist and has to count as
        # underivable for every one of its users, whatever the order
        shared = [c for c in g.nodes if c.kind == "class" and sum(1 for o in g.nodes if o is not c and c.name in o.needs_complete) >= 2]
        if shared:
            sh_ = rng.choice(shared)
            users = [o.name for o in g.nodes if o.kind == "class" and o is not sh_ and sh_.name in o.needs_complete]
            pick_ = users
        else:
            pick_ = rng.sample(classes, min(len(classes), rng.randint(2, 3)))
        flags += ["--no-recursive-allowlist", "--allowlist-type", "|".join(pick_)]
    limit = chk.pick(10, 48)
    orders, total = gen_graph.valid_orders(g, rng, limit)
    name = "graph-%d" % i
    ref = None
    obs = {"graphs": 1, "orders_run": 0, "orders_total_enumerated": total or 0, "types_compared": 0}
    allobs = {}
    for k, order in enumerate(orders):
        for hoist in ((True, False) if k < 4 else (rng.random() < 0.5,)):
            text = gen_graph.render(g, order, hoist)
            p = write(os.path.join(d, "g%d_%d_%d.%s" % (i, k, int(hoist), ext)), text)
            rc, out, se, log = hooked(d, "g%d_%d_%d" % (i, k, int(hoist)), [p] + flags + ["--"] + cargs)
            if rc != 0:
                if ref is None and k == 0:
                    return Verdict(INCONCLUSIVE, name, "bindgen rejects generated graph: " + se[-300:])
                return Verdict(VIOLATED, name, "one declaration order is accepted, another is rejected: " + se[-400:], files={"rejected." + ext: text})
            o, consulted, capped = parse_log(log)
            for kk, v in o.items():
                allobs[kk] = allobs.get(kk, 0) + v
            if consulted or capped:
                return Verdict(VIOLATED, name, "a fact that is not the fixed point was acted on (order %s, hoist=%s):\n%s" % (order, hoist, "\n".join(consulted[:6] + capped)),
                               files={"header." + ext: text, "flags.txt": " ".join(flags), "hook.log": log[-6000:]}, obs=obs,
                               signature=unstable_signature(consulted, flags, text))
            inv = inventory(out)
            if "error" in inv:
                return Verdict(INCONCLUSIVE, name, "output does not parse: " + inv["error"])
            view = item_view(inv)
            obs["orders_run"] += 1
            obs["types_compared"] += len(view)
            if ref is None:
                ref = (view, text, order, hoist)
            else:
                dv = diff_views(ref[0], view)
                if dv:
                    return Verdict(VIOLATED, name, "the same entities declared in a different valid order get different bindings:\n" + "\n".join(dv[:8]),
                                   files={"order_a." + ext: ref[1], "order_b." + ext: text, "flags.txt": " ".join(flags + ["--"] + cargs)}, obs=obs)
            for f in (p, out):
                try:
                    os.unlink(f)
                except OSError:
                    pass
    obs.update(allobs)
    return Verdict(HELD, name, obs=obs, nontrivial=obs["orders_run"] >= 2, key=name,
                   sample={"graph": gen_graph.render(g, orders[0], True)[:700], "flags": flags, "orders_run": obs["orders_run"]} if i % 41 == 0 else None)


def types_case(chk, i):
    """invariant hook on generated C type graphs / function libraries with all derive analyses on"""
    rng = chk.rng("types", i)
    d = chk.dir("t%d" % (i % 32))
    if rng.random() < 0.7:
        text = G.Gen(rng, dict(bf_in_union=True, p_packed=0.15, p_aligned=0.1)).generate().header()
    else:
        text = gen_funcs.gen_c(rng, rng.randint(10, 40))[0]
    p = write(os.path.join(d, "t%d.h" % i), text)
    flags = list(DERIVE_FLAGS) + rng.choice([[], ["--impl-debug", "--impl-partialeq"], ["--no-derive-copy"], ["--default-enum-style", "rust"]])
    if rng.random() < 0.3:
        flags += ["--opaque-type", ".*[02468]"]
    if rng.random() < 0.3:
        flags += ["--blocklist-type", ".*[13579]"]
    rc, out, se, log = hooked(d, "t%d" % i, [p] + flags)
    name = "types-%d" % i
    if rc != 0:
        return Verdict(HELD, name, obs={"headers_bindgen_rejects": 1})
    obs, consulted, capped = parse_log(log)
    if consulted or capped:
        return Verdict(VIOLATED, name, "a fact that is not the fixed point was acted on:\n" + "\n".join(consulted[:8] + capped),
                       files={"header.h": text, "flags.txt": " ".join(flags), "hook.log": log[-6000:]}, obs=obs,
                       signature=unstable_signature(consulted, flags, text))
    return Verdict(HELD, name, obs=obs, nontrivial=obs["consultations"] > 0, key=name)


def amplifier_case(chk, i):
    """work-list permutation: never a verdict; differences are only noted unless a real order confirms them (graph_case does that)."""
    rng = chk.rng("graph", i)
    lang = "cxx" if rng.random() < 0.8 else "c"
    g = gen_graph.generate(rng, lang=lang)
    d = chk.dir("a%d" % (i % 16))
    ext = "hpp" if lang == "cxx" else "h"
    cargs = ["-std=c++17"] if lang == "cxx" else []
    orders, _ = gen_graph.valid_orders(g, rng, 1)
    text = gen_graph.render(g, orders[0], True)
    p = write(os.path.join(d, "a%d.%s" % (i, ext)), text)
    base = None
    ndiff = 0
    nunst = 0
    for s in range(chk.pick(4, 16)):
        env = {"BINDGEN_VERIF_WORKLIST_SEED": str(s)} if s else None
        rc, out, se, log = hooked(d, "a%d_%d" % (i, s), [p] + DERIVE_FLAGS + ["--"] + cargs, env=env)
        if rc != 0:
            return None
        _, consulted, _ = parse_log(log)
        nunst += len(consulted)
        t = open(out).read()
        if base is None:
            base = t
        elif t != base:
            ndiff += 1
    return Verdict(HELD, "amplifier-%d" % i, obs={"worklist_seeds_run": chk.pick(4, 16), "artificial_schedule_output_differs": ndiff,
                                                  "artificial_schedule_unstable_consulted": nunst})


def repro_case(chk):
    from ..core import VERIF
    d = chk.dir("repro")
    p = os.path.join(VERIF, "findings/C07/has_float_opaque.h")
    flags = ["--with-derive-eq", "--with-derive-partialeq", "--opaque-type", "O2", "--no-layout-tests"]
    rc, out, se, log = hooked(d, "r", [p] + flags)
    obs, consulted, capped = parse_log(log)
    if consulted:
        return Verdict(VIOLATED, "repro-has-float-opaque", "\n".join(consulted), signature=unstable_signature(consulted, flags, ""))
    return Verdict(HELD, "repro-has-float-opaque", obs=obs)


ALIAS_FACTS = """
struct VBase { virtual void f(); int b; };
typedef VBase VBaseT; typedef VBaseT VBaseTT;
struct VD1 : VBaseT { virtual void g(); int d; };
struct VD2 : VBaseTT { virtual void h(); };
struct VD3 : VD1 { virtual void k(); };
template <typename T> struct VWrap { T inner; };
using VAlias = VWrap<VD1>;
struct VHolds { VAlias a; VD2 m[2]; };
struct DBase { ~DBase(); int x; };
typedef DBase DBaseT;
struct DD1 : DBaseT { int y; };
struct DHolds { DD1 d; DBaseT t[2]; };
struct FBase { float x; };
typedef FBase FBaseT; typedef FBaseT FArr[3];
struct FD1 : FBaseT { int k; };
struct FHolds { FArr a; FD1 d; };
template <typename T> struct TArr { T arr[40]; };
typedef TArr<int> TArrI; typedef TArrI TArrII;
struct THolds { TArrII t; TArrI u[2]; };
"""


def alias_facts_cases(chk):
    """Facts (vtable, destructor, float, type-parameter array, derivability) that reach their users only THROUGH typedefs / alias templates, in
    every order of the alias declarations that C++ allows: deterministic, run on every invocation."""
    d = chk.dir("aliasfacts")
    out = []
    variants = [("as-written", ALIAS_FACTS)]
    # the classes first, all aliases after their targets but before their users is the only legal order; what can move are the forward
    # declarations: hoist them all
    fwd = "".join("struct %s;\n" % n for n in re.findall(r"^struct (\w+)", ALIAS_FACTS, re.M))
    variants.append(("forward-declared", fwd + ALIAS_FACTS))
    for vn, text in variants:
        p = write(os.path.join(d, "af_%s.hpp" % vn), text)
        for k, flags in enumerate(([], ["--with-derive-default", "--with-derive-hash", "--with-derive-partialeq", "--with-derive-eq", "--with-derive-ord", "--with-derive-partialord"],
                                   ["--default-alias-style", "new_type"], ["--no-layout-tests", "--impl-debug", "--with-derive-default"])):
            name = "alias-facts-%s-%d" % (vn, k)
            rc, o, se, log = hooked(d, "af%s%d" % (vn[:2], k), [p] + flags + ["--", "-x", "c++", "-std=c++14"])
            if rc != 0 or "BEGIN" not in log:
                out.append(Verdict(INCONCLUSIVE, name, "bindgen/hook failed: " + se[-200:]))
                continue
            obs, consulted, capped = parse_log(log)
            if consulted or capped:
                out.append(Verdict(VIOLATED, name, "a fact that is not the fixed point was acted on:\n" + "\n".join(consulted[:8]),
                                   files={"header.hpp": text, "flags.txt": " ".join(flags), "hook.log": log[-6000:]}, obs=obs,
                                   signature=unstable_signature(consulted, flags, text)))
            else:
                out.append(Verdict(HELD, name, obs=dict(obs, alias_fact_headers=1), nontrivial=obs["consultations"] > 0, key=name))
    return out


def run(chk):
    chk.add(repro_case(chk))
    for v in alias_facts_cases(chk):
        chk.add(v)
    n = len(corpus.entries())
    chk.map(lambda i: corpus_case(chk, i), range(n), budget_s=chk.pick(300, 900))
    chk.map(lambda i: graph_case(chk, i), range(chk.pick(70, 700)), budget_s=chk.pick(400, 3000))
    chk.map(lambda i: types_case(chk, i), range(chk.pick(150, 1500)), budget_s=chk.pick(200, 1200))
    chk.map(lambda i: nested_case(chk, i), range(chk.pick(150, 1500)), budget_s=chk.pick(200, 1200))
    if not chk.quick():
        chk.map(lambda i: amplifier_case(chk, i), range(60), budget_s=900)
    return chk.finish(
        rule="(a) every repository header with its own flags and every generated C type graph / function library run under hooks K2+K3: "
             "after each analysis converges a clone is iterated round-robin over all nodes without the dependency map; nodes that still "
             "change are 'unstable', and every later look-up of an unstable (analysis, item) is a violation; non-trivial = >= 5 analyses "
             "ran and their results were consulted. (b) generated C++/C declaration graphs (inheritance, by-value / pointer / template "
             "edges, typedef chains, opaque / blocklist / allowlist cuts) rendered in every topological order (<= 6 declarations) or "
             "seeded samples, with forward declarations hoisted or sunk; per-type inventories (derives, generics, fields, repr, impls, "
             "assertion numbers) must be identical across orders. (c, thorough) work-list permutation as an amplifier: counted, never a verdict.",
        assumptions=["constrain(n) only changes n's own entry, so the nodes whose reference iteration reports Changed are exactly those "
                     "whose converged value is not the fixed point",
                     "anonymous types are not generated in (b) so that names are comparable across orders"])
