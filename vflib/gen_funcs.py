"""Small generator of C / C++ headers with many interleaved functions, variables, types
(used by C18, C11, C12 background load, C09)."""

SCALARS = ["int", "unsigned int", "char", "signed char", "unsigned char", "short", "unsigned short", "long",
           "unsigned long", "long long", "unsigned long long", "float", "double", "_Bool"]


def gen_c(rng, n=20, prefix="", attrs=True, abis=False):
    """Returns (text, info) — a C header with interleaved declarations."""
    out = []
    info = {"functions": [], "vars": [], "types": [], "enums": []}
    types = list(SCALARS)
    for i in range(n):
        x = rng.random()
        if x < 0.2:
            name = "%sS%d" % (prefix, i)
            fields = "; ".join("%s f%d" % (rng.choice(types), j) for j in range(rng.randint(1, 4)))
            out.append("struct %s { %s; };" % (name, fields))
            types.append("struct %s" % name)
            types.append("struct %s *" % name)
            info["types"].append(name)
        elif x < 0.28:
            name = "%sE%d" % (prefix, i)
            out.append("enum %s { %s_A, %s_B = %d };" % (name, name, name, rng.randint(2, 99)))
            types.append("enum %s" % name)
            info["enums"].append(name)
        elif x < 0.36:
            name = "%sT%d" % (prefix, i)
            out.append("typedef %s %s;" % (rng.choice(types).replace(" *", "*"), name))
            types.append(name)
            info["types"].append(name)
        elif x < 0.5:
            name = "%sv%d" % (prefix, i)
            q = rng.choice(["", "const "])
            out.append("extern %s%s %s;" % (q, rng.choice(types), name))
            info["vars"].append(name)
        elif x < 0.55:
            out.append("#define %sM%d %d" % (prefix, i, rng.randint(0, 1000)))
        else:
            name = "%sfn%d" % (prefix, i)
            ret = rng.choice(types + ["void"])
            args = ", ".join("%s a%d" % (rng.choice(types), j) for j in range(rng.randint(0, 4))) or "void"
            at = ""
            if attrs and rng.random() < 0.2:
                at = " __attribute__((warn_unused_result))" if ret != "void" else ""
            if abis and rng.random() < 0.3:
                at += " __attribute__((%s))" % rng.choice(["stdcall", "fastcall", "cdecl"])
            if rng.random() < 0.1:
                at += ' __asm__("%s_renamed")' % name
            if rng.random() < 0.15:
                out.append("/** doc for %s */" % name)
            out.append("%s %s(%s)%s;" % (ret, name, args, at))
            info["functions"].append(name)
    return "\n".join(out) + "\n", info


def gen_cxx(rng, n=16):
    """C++ header: nested namespaces containing functions, variables and types."""
    out = []
    depth = 0
    k = 0
    for i in range(n):
        x = rng.random()
        if x < 0.18 and depth < 3:
            out.append("namespace ns%d {" % i)
            depth += 1
        elif x < 0.28 and depth > 0:
            out.append("}")
            depth -= 1
        elif x < 0.4:
            out.append('extern "C" { int cfn%d(int); extern int cvar%d; }' % (i, i))
        else:
            body, _ = gen_c(rng, 3, prefix="n%d_" % i, attrs=True)
            out.append(body.replace("_Bool", "bool"))
        k += 1
    out.extend("}" for _ in range(depth))
    return "\n".join(out) + "\n"
