"""Presentation option sets: none of them may change a layout number."""

DERIVES = ["--with-derive-default", "--with-derive-hash", "--with-derive-partialeq", "--with-derive-eq",
           "--with-derive-ord", "--with-derive-partialord"]

PRESENTATION = [
    ("default", []),
    ("derives", DERIVES),
    ("impls", ["--impl-debug", "--impl-partialeq", "--with-derive-partialeq", "--with-derive-default"]),
    ("noderive", ["--no-derive-copy", "--no-derive-debug"]),
    ("enum-rust", ["--default-enum-style", "rust"]),
    ("enum-newtype", ["--default-enum-style", "newtype"]),
    ("enum-module", ["--default-enum-style", "moduleconsts"]),
    ("enum-bitfield", ["--default-enum-style", "bitfield"]),
    ("enum-newtype-global", ["--default-enum-style", "newtype_global"]),
    ("explicit-padding", ["--explicit-padding"]),
    ("no-layout-tests", ["--no-layout-tests"]),
    ("fmt-none", ["--formatter", "none"]),
    ("fmt-pretty", ["--formatter", "prettyplease"]),
    ("namespaces", ["--enable-cxx-namespaces"]),
    ("old-target", ["--rust-target", "1.70"]),
    ("use-core", ["--use-core"]),
    ("sort-merge", ["--sort-semantically", "--merge-extern-blocks"]),
    ("edition2024", ["--rust-target", "1.85", "--rust-edition", "2024", "--wrap-unsafe-ops"]),
    ("no-prepend-enum", ["--no-prepend-enum-name", "--translate-enum-integer-types"]),
    ("union-manually-drop", ["--no-derive-copy", "--default-non-copy-union-style", "manually_drop"]),
    ("c-naming", ["--c-naming"]),
]


def model_predicates(model):
    """Facts about a gen_ctypes model used to steer clear of *recorded* bindgen defects
    (each has its own reproducer under the owning property, see known_findings.json)."""
    from . import gen_ctypes as G
    p = {"enum_bitfield": False, "packed": False, "bitfield": False}

    def walk(rec):
        if rec.packed or rec.pragma_pack:
            p["packed"] = True
        for f in rec.fields:
            if f.inline is not None:
                walk(f.inline)
            elif f.bits is not None:
                p["bitfield"] = True
                if isinstance(G.resolve(f.ty), G.EnumRef):
                    p["enum_bitfield"] = True
    for r in model.records:
        walk(r)
    return p


def sample(rng, n, always=("default",), model=None):
    pool = list(PRESENTATION)
    if model is not None:
        pr = model_predicates(model)
        if pr["enum_bitfield"]:      # C01 finding enum-bitfield-newtype-cast
            pool = [x for x in pool if x[0] not in ENUM_WRAPPING]
        if pr["packed"]:             # C01 findings packed-union-blob-align (E0588), impl-debug-packed (E0793)
            pool = [x for x in pool if x[0] not in ("noderive", "union-manually-drop", "impls")]
    names = [x for x in pool if x[0] in always]
    rest = [x for x in pool if x[0] not in always]
    rng.shuffle(rest)
    return names + rest[:max(0, n - len(names))]

# option sets whose output the value probe cannot address member-by-member (union wrappers);
# they are checked on sizes/alignments and through rustc evaluating bindgen's own assertions
LAYOUT_ONLY = {"noderive", "union-manually-drop"}
# enum styles that wrap the enum in a struct
ENUM_WRAPPING = {"enum-newtype", "enum-bitfield", "enum-newtype-global"}
