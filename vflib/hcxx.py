"""C++ class libraries for C04: methods (const / non-const), static methods, overloads, constructors, destructors, virtual methods,
single inheritance and namespaces.  Every C++ member function prints its qualified signature, the receiver's fields and its arguments;
a C++ driver and a Rust driver (through the bindings) perform the same sequence of calls and their transcripts must agree."""

# (C spelling, demangled spelling, Rust value formatter kind, bits)
SCALARS = [
    ("int", "int", "i", 32), ("unsigned int", "unsigned int", "u", 32), ("long", "long", "i", 64), ("unsigned long", "unsigned long", "u", 64),
    ("short", "short", "i", 16), ("unsigned short", "unsigned short", "u", 16), ("long long", "long long", "i", 64),
    ("signed char", "signed char", "i", 8), ("unsigned char", "unsigned char", "u", 8), ("char", "char", "i", 8),
    ("bool", "bool", "b", 1), ("double", "double", "d", 64), ("float", "float", "f", 32),
]


class Ty:
    def __init__(self, c, dem, kind, bits=0, rec=None):
        self.c, self.dem, self.kind, self.bits, self.rec = c, dem, kind, bits, rec


def scalar(rng):
    c, dem, k, b = rng.choice(SCALARS)
    return Ty(c, dem, k, b)


class Pod:
    """trivially copyable aggregate passed / returned by value"""
    def __init__(self, name, fields):
        self.name, self.fields = name, fields     # fields: [(fname, Ty)]


class Method:
    def __init__(self, name, params, ret, const=False, static=False, virtual=False, kind="method"):
        self.name, self.params, self.ret, self.const, self.static, self.virtual, self.kind = name, params, ret, const, static, virtual, kind
        self.named = True       # parameter names present in the declaration


class Klass:
    def __init__(self, name, ns):
        self.name, self.ns = name, ns
        self.fields = []        # [(fname, Ty)]
        self.methods = []
        self.base = None
        self.has_dtor = False

    @property
    def qual(self):
        return "::".join(self.ns + [self.name])


class Lib:
    def __init__(self):
        self.pods, self.classes = [], []


def val_of(key, ty):
    import hashlib
    h = int(hashlib.sha1(key.encode()).hexdigest()[:12], 16)
    if ty.kind == "b":
        return h & 1
    if ty.kind in ("d", "f"):
        return (h % 4001 - 2000) / 8.0
    if ty.kind == "u":
        return h % (1 << min(ty.bits, 31))
    if ty.kind == "i":
        m = 1 << (min(ty.bits, 32) - 1)
        return h % (2 * m) - m
    return h % 1000


HOSTILE_METHODS = ["destruct", "destruct1", "new1", "new2", "new3", "new_", "type", "match", "fn", "impl", "drop", "clone", "fmt", "eq", "hash", "Self", "self",
                   "super", "crate", "mod", "move", "ref", "use", "where", "loop", "in", "let", "as", "dyn", "async", "await", "box", "yield",
                   "final", "override", "abstract", "macro", "priv", "unsized", "become", "unsafe", "trait", "pub", "extern_", "m0", "get"]
HOSTILE_FIELDS = ["_base", "_base_1", "vtable_", "_address", "_bitfield_1", "_bitfield_align_1", "__bindgen_padding_0", "_phantom_0", "type", "self", "Self",
                  "fn", "match", "crate", "super", "box", "dyn", "async", "_", "a$b"]


def generate(rng, hostile_names=False):
    lib = Lib()
    ns = rng.choice([[], [], ["ns"], ["outer", "inner"]])
    for i in range(rng.randint(0, 2)):
        n = rng.choice([1, 2, 2, 3, 4])
        if i == 0:
            fields = [("p%d" % j, scalar(rng)) for j in range(n)]
        else:
            # larger than two eightbytes: memory class (returned through a hidden pointer, which precedes `this`)
            fields = [("p%d" % j, Ty(*rng.choice([s for s in SCALARS if s[3] == 64]))) for j in range(rng.randint(3, 4))]
        lib.pods.append(Pod("P%d" % i, fields))
    ncls = rng.randint(1, 3)
    for i in range(ncls):
        k = Klass("K%d" % i, list(ns) if rng.random() < 0.8 else [])
        if lib.classes and rng.random() < 0.4:
            cands = [b for b in lib.classes if b.ns == k.ns]
            if cands:
                k.base = rng.choice(cands)
        for j in range(rng.randint(1, 4)):
            k.fields.append(("f%d_%d" % (i, j), scalar(rng)))
        if hostile_names and rng.random() < 0.5:
            for fn_ in rng.sample(HOSTILE_FIELDS, rng.randint(1, 3)):
                k.fields.append((fn_, scalar(rng)))
        if k.base is not None:
            # keep the first own member out of the base's tail padding (re-use of tail padding is a layout matter, C02's)
            k.fields[0] = (k.fields[0][0], Ty(*rng.choice([s_ for s_ in SCALARS if s_[3] == 64])))
        virt = rng.random() < 0.3
        # constructors (at least one: the drivers need a way to make an object)
        seen = set()
        for j in range(rng.randint(1, 3)):
            ps = [scalar(rng) for _ in range(rng.randint(0, 3))]
            key = tuple(p.dem for p in ps)
            if key in seen:
                continue
            seen.add(key)
            k.methods.append(Method(k.name, ps, None, kind="ctor"))
        if rng.random() < 0.5:
            k.has_dtor = True
            k.methods.append(Method("~" + k.name, [], None, kind="dtor", virtual=virt and rng.random() < 0.5))
        names = ["m%d" % q for q in range(3)] + ["get", "set", "type", "match", "drop", "clone", "self_"]
        if hostile_names:
            names = rng.sample(HOSTILE_METHODS, 6) + ["m0"]
        sigs = set()
        for j in range(rng.randint(1, 7)):
            nm = rng.choice(names)
            ps = []
            for _ in range(rng.choice([0, 1, 1, 2, 3, 5, 7])):
                r = rng.random()
                if r < 0.7:
                    ps.append(scalar(rng))
                elif r < 0.8:
                    ps.append(Ty("const int *", "int const*", "cptr"))
                elif r < 0.88:
                    ps.append(Ty("%s *" % k.qual, "%s*" % k.qual, "self"))
                elif lib.pods:
                    p = rng.choice(lib.pods)
                    ps.append(Ty(p.name, p.name, "pod", rec=p))
                else:
                    ps.append(scalar(rng))
            r = rng.random()
            if r < 0.55:
                ret = scalar(rng)
            elif r < 0.7:
                ret = None
            elif r < 0.8:
                ret = Ty("%s &" % k.qual, "", "selfref")
            elif lib.pods:
                p = rng.choice(lib.pods)
                ret = Ty(p.name, p.name, "pod", rec=p)
            else:
                ret = None
            static = rng.random() < 0.2
            const = (not static) and rng.random() < 0.4
            if static and ret is not None and ret.kind == "selfref":
                ret = None
            if const and ret is not None and ret.kind == "selfref":
                ret = Ty("const %s &" % k.qual, "", "selfref")
            key = (nm, tuple(p.dem for p in ps), const)
            key2 = (nm, tuple(p.dem for p in ps))
            if key in sigs or (static and any(s[:2] == key2 for s in sigs)) or any(s[:2] == key2 and s[2] != const and static for s in sigs):
                continue
            # a static and a non-static overload with the same parameter list are ill-formed
            if any(s[:2] == key2 for s in sigs) and static:
                continue
            sigs.add(key)
            m = Method(nm, ps, ret, const=const, static=static, virtual=(virt and not static and rng.random() < 0.4))
            m.named = rng.random() < 0.7
            k.methods.append(m)
        k.statics_seen = sigs
        lib.classes.append(k)
    return lib


def _params(m, named=True):
    return ", ".join(("%s a%d" % (p.c, j)) if named else p.c for j, p in enumerate(m.params))


def header(lib):
    out = []
    for p in lib.pods:
        out.append("struct %s { %s };" % (p.name, " ".join("%s %s;" % (t.c, n) for n, t in p.fields)))
    for k in lib.classes:
        for n in k.ns:
            out.append("namespace %s {" % n)
        out.append("struct %s%s {" % (k.name, (" : public %s" % k.base.name) if k.base else ""))
        for n, t in k.fields:
            out.append("  %s %s;" % (t.c, n))
        for m in k.methods:
            if m.kind == "ctor":
                out.append("  %s(%s);" % (k.name, _params(m, m.named)))
            elif m.kind == "dtor":
                out.append("  %s~%s();" % ("virtual " if m.virtual else "", k.name))
            else:
                out.append("  %s%s%s %s(%s)%s;" % ("static " if m.static else "", "virtual " if m.virtual else "", m.ret.c if m.ret else "void", m.name,
                                                 _params(m, m.named), " const" if m.const else ""))
        out.append("};")
        for n in k.ns:
            out.append("}")
    return "\n".join(out) + "\n"


def demangled(k, m):
    ps = ", ".join(p.dem for p in m.params)
    if m.kind == "ctor":
        return "%s::%s(%s)" % (k.qual, k.name, ps)
    if m.kind == "dtor":
        return "%s::~%s()" % (k.qual, k.name)
    return "%s::%s(%s)%s" % (k.qual, m.name, ps, " const" if m.const else "")


def _print_val(ty, expr, label):
    """C++ statement printing `label value` in the shared transcript format"""
    if ty.kind in ("i", "b"):
        return 'printf(" %s=%%lld", (long long)(%s));' % (label, expr)
    if ty.kind == "u":
        return 'printf(" %s=%%llu", (unsigned long long)(%s));' % (label, expr)
    if ty.kind == "d":
        return '{ double vfd = (%s); unsigned long long vfb; memcpy(&vfb, &vfd, 8); printf(" %s=d%%016llx", vfb); }' % (expr, label)
    if ty.kind == "f":
        return '{ float vff = (%s); unsigned vfb; memcpy(&vfb, &vff, 4); printf(" %s=f%%08x", vfb); }' % (expr, label)
    if ty.kind == "cptr":
        return 'printf(" %s=*%%d", *(%s));' % (label, expr)
    if ty.kind == "self":
        return 'printf(" %s=obj%%d", (int)((%s) != 0));' % (label, expr)
    if ty.kind == "pod":
        return " ".join(_print_val(t, "(%s).%s" % (expr, n), "%s.%s" % (label, n)) for n, t in ty.rec.fields)
    raise ValueError(ty.kind)


def all_fields(k):
    return (all_fields(k.base) if k.base else []) + k.fields


def _c_lit(ty, v):
    if ty.kind == "b":
        return "true" if v else "false"
    if ty.kind == "d":
        return "%r" % float(v)
    if ty.kind == "f":
        return "%rf" % float(v)
    if ty.kind == "u":
        return "(%s)%dULL" % (ty.c, v)
    return "(%s)%dLL" % (ty.c, v)


def impl(lib, hname="h.hpp"):
    out = ['#include <stdio.h>', '#include <string.h>', '#include "%s"' % hname]
    for k in lib.classes:
        for mi, m in enumerate(k.methods):
            body = ['printf("IN %s");' % demangled(k, m)]
            if not m.static and m.kind != "ctor":
                for n, t in all_fields(k):
                    body.append(_print_val(t, "this->" + n, "this." + n))
            for j, p in enumerate(m.params):
                body.append(_print_val(p, "a%d" % j, "a%d" % j))
            body.append('printf("\\n"); fflush(stdout);')
            if m.kind == "ctor":
                for n, t in k.fields:
                    body.append("this->%s = %s;" % (n, _c_lit(t, val_of("%s.%d.%s" % (k.qual, mi, n), t))))
                hd = "%s::%s(%s)" % (k.qual, k.name, _params(m))
                if k.base is not None:
                    bi = [q for q, bm in enumerate(k.base.methods) if bm.kind == "ctor"][0]
                    bm = k.base.methods[bi]
                    hd += " : %s(%s)" % (k.base.name, ", ".join(_c_lit(p_, v_) for p_, v_ in zip(bm.params, arg_vals(k.base, bi, bm))))
            elif m.kind == "dtor":
                hd = "%s::~%s()" % (k.qual, k.name)
            else:
                if not m.const and not m.static and k.fields:
                    n, t = k.fields[0]
                    if t.kind in ("i", "u") and t.bits >= 16:
                        body.append("this->%s = (%s)((this->%s + 1) & 0x3fff);" % (n, t.c, n))
                if m.ret is not None:
                    if m.ret.kind == "selfref":
                        body.append("return *this;")
                    elif m.ret.kind == "pod":
                        body.append("{ %s r; %s return r; }" % (m.ret.c, " ".join(
                            "r.%s = %s;" % (n, _c_lit(t, val_of("%s.%d.ret.%s" % (k.qual, mi, n), t))) for n, t in m.ret.rec.fields)))
                    else:
                        body.append("return %s;" % _c_lit(m.ret, val_of("%s.%d.ret" % (k.qual, mi), m.ret)))
                hd = "%s %s::%s(%s)%s" % (m.ret.c if m.ret else "void", k.qual, m.name, _params(m), " const" if m.const else "")
            out.append("%s {\n  %s\n}" % (hd, "\n  ".join(body)))
    return "\n".join(out) + "\n"


def plan(lib):
    """the call sequence both drivers perform: list of (class, ctor index, [method indices])"""
    seq = []
    for k in lib.classes:
        ctors = [i for i, m in enumerate(k.methods) if m.kind == "ctor"]
        others = [i for i, m in enumerate(k.methods) if m.kind == "method"]
        for c in ctors:
            seq.append((k, c, others))
    return seq


def arg_vals(k, mi, m):
    return [val_of("%s.%d.a%d" % (k.qual, mi, j), p) if p.kind in ("i", "u", "b", "d", "f") else None for j, p in enumerate(m.params)]


def _c_print_ret(ty, expr, obj):
    if ty.kind == "selfref":
        return 'printf("RET same=%%d\\n", (int)(&(%s) == %s));' % (expr, obj)
    if ty.kind == "pod":
        return '{ %s vr = %s; printf("RET"); %s printf("\\n"); }' % (ty.c, expr, _print_val(ty, "vr", "r"))
    return '{ %s vr = %s; printf("RET"); %s printf("\\n"); }' % (ty.c, expr, _print_val(ty, "vr", "r"))


def driver_cpp(lib, hname="h.hpp"):
    out = ['#include <stdio.h>', '#include <string.h>', '#include <new>', '#include "%s"' % hname, "static int vf_cell = 77;", "int main() {"]
    for si, (k, c, others) in enumerate(plan(lib)):
        cm = k.methods[c]
        args = ", ".join(_c_lit(p, v) for p, v in zip(cm.params, arg_vals(k, c, cm)))
        out.append("  { alignas(%s) static char buf%d[sizeof(%s)]; memset(buf%d, 0, sizeof buf%d);" % (k.qual, si, k.qual, si, si))
        out.append('    printf("STEP %d construct\\n"); fflush(stdout);' % si)
        out.append("    %s *o = new (buf%d) %s%s;" % (k.qual, si, k.qual, ("(%s)" % args) if args else ""))
        out.append("    " + " ".join(['printf("OBJ");'] + [_print_val(t, "o->" + n, n) for n, t in k.fields] + ['printf("\\n");']))
        for mi in others:
            m = k.methods[mi]
            al = []
            for p, v in zip(m.params, arg_vals(k, mi, m)):
                if p.kind == "cptr":
                    al.append("&vf_cell")
                elif p.kind == "self":
                    al.append("o")
                elif p.kind == "pod":
                    al.append("%s{%s}" % (p.c, ", ".join(_c_lit(t, val_of("%s.%d.pod.%s" % (k.qual, mi, n), t)) for n, t in p.rec.fields)))
                else:
                    al.append(_c_lit(p, v))
            # non-virtual, qualified call: the binding names exactly this function
            recv = ("((const %s *)o)" % k.qual) if m.const else "o"
            call = ("%s::%s(%s)" % (k.qual, m.name, ", ".join(al))) if m.static else ("%s->%s::%s(%s)" % (recv, k.qual, m.name, ", ".join(al)))
            out.append('    printf("STEP %d call %d\\n"); fflush(stdout);' % (si, mi))
            if m.ret is None:
                out.append("    %s;" % call)
            else:
                out.append("    " + _c_print_ret(m.ret, call, "o"))
        if k.has_dtor:
            out.append('    printf("STEP %d destruct\\n"); fflush(stdout);' % si)
            out.append("    o->%s::~%s();" % (k.qual, k.name))
        out.append("  }")
    out.append("  return 0;\n}")
    return "\n".join(out) + "\n"


def _rs_lit(ty, v):
    if ty.kind == "b":
        return "true" if v else "false"
    if ty.kind == "d":
        return "f64::from_bits(0x%016x)" % _dbits(v)
    if ty.kind == "f":
        return "f32::from_bits(0x%08x)" % _fbits(v)
    return "(%d) as _" % v


def _dbits(v):
    import struct
    return struct.unpack("<Q", struct.pack("<d", float(v)))[0]


def _fbits(v):
    import struct
    return struct.unpack("<I", struct.pack("<f", float(v)))[0]


RS_PRELUDE = r'''
#![allow(warnings)]
mod b { include!("%(bindings)s"); }
use std::io::Write;
trait VfShow { fn show(&self) -> String; }
macro_rules! vf_int { ($($t:ty),*) => { $(impl VfShow for $t { fn show(&self) -> String { format!("{}", *self) } })* } }
vf_int!(i8, i16, i32, i64, u8, u16, u32, u64, isize, usize);
impl VfShow for bool { fn show(&self) -> String { format!("{}", *self as i32) } }
impl VfShow for f64 { fn show(&self) -> String { format!("d{:016x}", self.to_bits()) } }
impl VfShow for f32 { fn show(&self) -> String { format!("f{:08x}", self.to_bits()) } }
fn flush() { std::io::stdout().flush().unwrap(); }
static mut VF_CELL: ::std::os::raw::c_int = 77;
'''


def driver_rs(lib, bindings_path, resolve, use_wrappers):
    """resolve(k, method index) -> dict(ext=path of the extern fn, wrapper=method name or None, ty=path of the class type) or None"""
    out = [RS_PRELUDE % {"bindings": bindings_path}, "fn main() { unsafe {"]
    skipped = []
    for si, (k, c, others) in enumerate(plan(lib)):
        cm = k.methods[c]
        rc = resolve(k, c)
        if rc is None:
            skipped.append((k.qual, c))
            continue
        args = [_rs_lit(p, v) for p, v in zip(cm.params, arg_vals(k, c, cm))]
        out.append('  { println!("STEP %d construct"); flush();' % si)
        if rc["wrapper"] and use_wrappers and si % 2 == 0:
            out.append("    let mut obj: %s = %s::%s(%s);" % (rc["ty"], rc["ty"], rc["wrapper"], ", ".join(args)))
        else:
            out.append("    let mut slot = ::std::mem::MaybeUninit::<%s>::zeroed(); %s(%s); let mut obj = slot.assume_init();" % (
                rc["ty"], rc["ext"], ", ".join(["slot.as_mut_ptr()"] + args)))
        out.append("    let o: *mut %s = &mut obj;" % rc["ty"])
        fl = " ".join('print!(" %s={}", VfShow::show(&(*o).%s));' % (n, rc["fields"].get(n, n)) for n, t in k.fields)
        out.append('    print!("OBJ"); %s println!(""); flush();' % fl)
        for mi in others:
            m = k.methods[mi]
            rm = resolve(k, mi)
            out.append('    println!("STEP %d call %d"); flush();' % (si, mi))
            if rm is None:
                skipped.append((k.qual, mi))
                out.append('    println!("UNBOUND");')
                continue
            al = []
            for p, v in zip(m.params, arg_vals(k, mi, m)):
                if p.kind == "cptr":
                    al.append("::std::ptr::addr_of!(VF_CELL)")
                elif p.kind == "self":
                    al.append("o")
                elif p.kind == "pod":
                    al.append("%s { %s }" % (rm["pods"][p.rec.name], ", ".join(
                        "%s: %s" % (n, _rs_lit(t, val_of("%s.%d.pod.%s" % (k.qual, mi, n), t))) for n, t in p.rec.fields)))
                else:
                    al.append(_rs_lit(p, v))
            if rm["wrapper"] and use_wrappers and (mi + si) % 2 == 0:
                # path form: method-call syntax would prefer a derived trait method (`Clone::clone`) over an inherent `&mut self` one
                call = "%s::%s(%s)" % (rc["ty"], rm["wrapper"], ", ".join(([] if m.static else ["&*o" if m.const else "&mut *o"]) + al))
            else:
                recv = [] if m.static else ["o as _"]
                call = "%s(%s)" % (rm["ext"], ", ".join(recv + al))
            if m.ret is None:
                out.append("    %s;" % call)
            elif m.ret.kind == "selfref":
                out.append('    { let r = %s; println!("RET same={}", (r as *const u8 == o as *const u8) as i32); }' % call)
            elif m.ret.kind == "pod":
                out.append('    { let r = %s; print!("RET"); %s println!(""); }' % (call, " ".join(
                    'print!(" r.%s={}", VfShow::show(&r.%s));' % (n, n) for n, t in m.ret.rec.fields)))
            else:
                out.append('    { let r = %s; println!("RET r={}", VfShow::show(&r)); }' % call)
        if k.has_dtor:
            di = [i for i, m in enumerate(k.methods) if m.kind == "dtor"][0]
            rd = resolve(k, di)
            out.append('    println!("STEP %d destruct"); flush();' % si)
            if rd is None:
                skipped.append((k.qual, di))
                out.append('    println!("UNBOUND");')
            elif rd["wrapper"] and use_wrappers:
                out.append("    %s::%s(&mut *o);" % (rc["ty"], rd["wrapper"]))
            else:
                out.append("    %s(o as _);" % rd["ext"])
        out.append("  }")
    out.append("} }")
    return "\n".join(out) + "\n", skipped
