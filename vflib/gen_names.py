"""C headers whose identifiers are hostile to Rust: keywords of every edition, reserved words, primitive type
names, prelude names, '_' and '$' forms, and collisions between tags / typedefs / functions / variables."""

RUST_WORDS = ["as", "async", "await", "become", "box", "crate", "dyn", "fn", "gen", "impl", "in", "let", "loop", "macro", "match",
              "mod", "move", "mut", "override", "priv", "pub", "ref", "self", "Self", "super", "trait", "try", "type", "unsafe",
              "unsized", "use", "virtual", "where", "yield", "abstract", "final", "macro_rules", "raw", "safe", "true_", "false_"]
PRIMS = ["u8", "i8", "u16", "i16", "u32", "i32", "u64", "i64", "u128", "i128", "usize", "isize", "f32", "f64", "str", "bool_"]
PRELUDE = ["Option", "Some", "None", "Box", "Vec", "String", "Copy", "Clone", "Debug", "Default", "Eq", "Hash", "Ord", "PartialEq",
           "core", "std", "root", "Result", "Ok", "Err", "Drop", "Sized", "Send", "Sync", "Iterator", "ToString", "Into", "From"]
ODD = ["_", "__", "_1", "a$b", "$x", "x$", "a$$b", "a_b", "bindgen_union_field", "_bindgen_ty_1", "__bindgen_anon_1", "_bitfield_1",
       "__BindgenBitfieldUnit", "__IncompleteArrayField", "__bindgen_padding_0", "_address", "_base", "vtable_", "new", "default_", "clone"]


INTERNAL = ["bindgen_union_field", "_bindgen_ty_1", "__bindgen_anon_1", "_bitfield_1", "__BindgenBitfieldUnit", "__IncompleteArrayField",
            "__bindgen_padding_0", "_address", "_base", "vtable_", "_bindgen_align", "__BindgenUnionField", "root"]
DERIVE_NAMES = ["Copy", "Clone", "Debug", "Default", "Eq", "Hash", "Ord", "PartialEq", "PartialOrd", "Option", "Some", "None", "core", "std"]
SAFE_ODD = ["_", "_1", "a$b", "$x", "x$", "a$$b", "a_b", "new", "default_", "clone"]
# names given to bit-fields: their constructor parameters are patterns, so they must not name a static / const / variant
BF_NAMES = ["bf_as", "bf_type", "bf_0", "flags_bf", "mode_bf", "b$f", "bf_match", "bf_self"]
SAFE_PRELUDE = [p for p in PRELUDE if p not in DERIVE_NAMES and p != "root"]


def generate(rng, n=14, subfamily="clean"):
    """subfamily: clean | tag-typedef-collision | derive-names | internal-names"""
    pool = RUST_WORDS + PRIMS + SAFE_PRELUDE + SAFE_ODD
    if subfamily == "derive-names":
        pool = pool + DERIVE_NAMES * 3
    if subfamily == "internal-names":
        pool = pool + INTERNAL * 3
    rng.shuffle(pool)
    third = len(pool) // 3
    tag_pool, ord_pool, free_pool = pool[:third], pool[third:2 * third], pool
    # keyword-named bit-fields must not coincide with ordinary identifiers (statics, constants, functions)
    ord_pool = [w for w in ord_pool if w not in RUST_WORDS[:12]]
    tag_pool = tag_pool + [w for w in pool[third:2 * third] if w in RUST_WORDS[:12]]
    used_tags, used_ord = set(), set()
    out = []
    info = {"names": [], "subfamily": subfamily}
    banned = set()
    all_used = set()

    def pick(space, macro=False, frm=None):
        src = frm or free_pool
        for _ in range(60):
            w = rng.choice(src)
            if w not in space and w not in banned and not (macro and w in all_used):
                space.add(w)
                all_used.add(w)
                if macro:
                    banned.add(w)
                info["names"].append(w)
                return w
        w = "n%d_%d" % (len(space), len(all_used))
        space.add(w)
        all_used.add(w)
        return w
    types = ["int", "char", "unsigned long", "double"]
    for i in range(n):
        k = rng.random()
        if k < 0.25:
            t = pick(used_tags, frm=tag_pool)
            fields = set()
            fl = "; ".join("%s %s" % (rng.choice(types), pick(fields)) for _ in range(rng.randint(1, 4)))
            if rng.random() < 0.3:
                fl += "; unsigned %s : 3" % pick(fields, frm=BF_NAMES + RUST_WORDS[:12])
            kw = rng.choice(["struct", "struct", "union"])
            out.append("%s %s { %s; };" % (kw, t, fl))
            types.append("%s %s" % (kw, t))
            types.append("%s %s *" % (kw, t))
            if t not in used_ord and t not in banned:
                r = rng.random()
                if subfamily == "tag-typedef-collision" and r < 0.6:
                    used_ord.add(t)
                    out.append("typedef int %s;" % t)
                elif r < 0.25:
                    # tag and function / variable of the same name: different Rust namespaces, must compile
                    used_ord.add(t)
                    out.append(rng.choice(["extern int %s;", "int %s(void);"]) % t)
        elif k < 0.37:
            t = pick(used_tags, frm=tag_pool)
            out.append("enum %s { %s };" % (t, ", ".join(pick(used_ord, frm=ord_pool) for _ in range(rng.randint(1, 3)))))
            types.append("enum %s" % t)
        elif k < 0.5:
            t = pick(used_ord, frm=ord_pool)
            if t in used_tags:
                continue
            out.append("typedef %s %s;" % (rng.choice(types).replace(" *", "*"), t))
            types.append(t)
        elif k < 0.62:
            out.append("extern %s%s %s;" % (rng.choice(["", "const "]), rng.choice(types), pick(used_ord, frm=ord_pool)))
        elif k < 0.7:
            out.append("#define %s %d" % (pick(used_ord, macro=True, frm=ord_pool), rng.randint(0, 99)))
        else:
            params = set()
            args = ", ".join("%s %s" % (rng.choice(types), pick(params)) for _ in range(rng.randint(0, 4))) or "void"
            out.append("%s %s(%s);" % (rng.choice(types + ["void"]), pick(used_ord, frm=ord_pool), args))
    return "\n".join(out) + "\n", info
