"""The repository's own test headers with the flag lines the test-suite uses."""
import glob
import os
import shlex

from .core import REPO

HEADERS = os.path.join(REPO, "bindgen-tests/tests/headers")
_cache = None


def entries(include_callbacks=False):
    """[(path, flags_before_dashdash, clang_args, needs_callbacks)] — sorted, deterministic."""
    global _cache
    if _cache is None:
        out = []
        for p in sorted(glob.glob(os.path.join(HEADERS, "*.h")) + glob.glob(os.path.join(HEADERS, "*.hpp"))):
            flags, cb, skip = [], None, False
            try:
                with open(p, errors="replace") as fh:
                    for line in fh:
                        if "bindgen-flags: " in line:
                            try:
                                flags.extend(shlex.split(line.split("bindgen-flags: ")[-1]))
                            except ValueError:
                                skip = True
                        elif "bindgen-parse-callbacks: " in line:
                            cb = line.split("bindgen-parse-callbacks: ")[-1].strip()
                        elif "bindgen-osx-only" in line:
                            skip = True
            except OSError:
                continue
            if skip or os.path.getsize(p) == 0:
                continue
            if "--" in flags:
                i = flags.index("--")
                bf, ca = flags[:i], flags[i + 1:]
            else:
                bf, ca = flags, []
            if not any(a.startswith("--target=") or a == "-target" for a in ca):
                ca = ca + ["--target=x86_64-unknown-linux"]
            out.append((p, ["--with-derive-default", "--vtable-generation"] + bf, ca, cb))
        _cache = out
    return [e for e in _cache if include_callbacks or e[3] is None]


def cmdline(entry, extra=()):
    p, bf, ca, _ = entry
    return [p] + list(bf) + list(extra) + ["--"] + list(ca)
