"""H-TYPES: emits the C probe TU and the Rust probe program for a generated
model, and compares what the two sides observed.

Both programs are generated from the same *model* (member paths and declared
types); every number and value they print is produced by clang-compiled code
on one side and by rustc-compiled code using bindgen's output on the other.
Rust never spells a bindgen type: a helper trait (`VfScalar`) lets rustc's own
type inference tell us width, signedness, kind and value of every member."""
import json
import re

from . import gen_ctypes as G
from .core import sha

STEP = 0x9E3779B97F4A7C15
K_FILLS = 3


def hval(tname, cpath, k):
    return int(sha("fill", tname, cpath, k)[:16], 16)


def c_type_name(rec):
    return rec.typedef_name or "%s %s" % (rec.kw, rec.name)


def leaf_kind(leaf):
    t = leaf.elem if leaf.elem is not None else leaf.ty
    return t.kind


def leaf_scalar(leaf):
    return leaf.elem if leaf.elem is not None else leaf.ty


def enum_value(leaf, h):
    e = leaf_scalar(leaf).enum
    vals = [v for _, v in e.enumerators]
    if leaf.bits is not None:
        # only values representable in the bit-field
        signed = e.signed
        lo = -(1 << (leaf.bits - 1)) if signed else 0
        hi = (1 << (leaf.bits - 1)) - 1 if signed else (1 << leaf.bits) - 1
        vals = [v for v in vals if lo <= v <= hi] or [0]
    return vals[h % len(vals)]


def usable(leaf):
    """Leaves whose value we fill and dump."""
    if leaf.fam:
        return False
    k = leaf_kind(leaf)
    if leaf.via_union and k in ("bool", "enum"):
        return False   # overlapping bytes could make an invalid bool / enum value in Rust (UB in the probe, not in bindgen)
    return True


# ----------------------------------------------------------------------------
# C side
# ----------------------------------------------------------------------------
C_PRELUDE = r'''
#include <stdio.h>
#include <stdlib.h>
#include <string.h>
#include <stddef.h>
#include <stdint.h>
#define VF_RZ(a) ((a) > 32 ? (a) : 32)
static void *vf_alloc(size_t n, size_t a) {
  void *m = 0;
  size_t rz = VF_RZ(a);
  if (posix_memalign(&m, rz, n + 2 * rz + 64)) abort();
  unsigned char *b = (unsigned char *)m;
  memset(b, 0xC5, n + 2 * rz);
  return b + rz;
}
static int vf_canary_ok(void *p, size_t n, size_t a) {
  size_t rz = VF_RZ(a);
  unsigned char *b = (unsigned char *)p - rz;
  for (size_t i = 0; i < rz; i++) if (b[i] != 0xC5 || b[rz + n + i] != 0xC5) return 0;
  return 1;
}
static void vf_hex(const void *p, size_t n) {
  const unsigned char *b = (const unsigned char *)p;
  for (size_t i = 0; i < n; i++) printf("%02x", b[i]);
}
static unsigned long long vf_fbits(double d) { unsigned long long u; memcpy(&u, &d, 8); return u; }
static unsigned int vf_fbitsf(float d) { unsigned int u; memcpy(&u, &d, 4); return u; }
'''


def c_show_expr(scalar, expr):
    """printf fragment for one scalar value."""
    k = scalar.kind
    if k == "float":
        if scalar.bits == 32:
            return '"f%08x"', "vf_fbitsf(%s)" % expr
        return '"d%016llx"', "vf_fbits(%s)" % expr
    if k in ("ptr", "fnptr"):
        return '"p%llx"', "(unsigned long long)(uintptr_t)(%s)" % expr
    if k == "bool":
        return '"%d"', "(int)(%s)" % expr
    if scalar.signed:
        return '"%lld"', "(long long)(%s)" % expr
    return '"%llu"', "(unsigned long long)(%s)" % expr


def c_make_expr(leaf, scalar, hexpr, tdecl):
    k = scalar.kind
    if k == "float":
        return "(%s)((double)((%s) & 0xFFFF) / 4.0)" % (scalar.c, hexpr)
    if k == "ptr":
        return "(%s)(uintptr_t)(%s)" % (scalar.c.strip(), hexpr)
    if k == "fnptr":
        return "(%s)(uintptr_t)(%s)" % (FnPtrCast(scalar), hexpr)
    if k == "bool":
        return "(_Bool)((%s) & 1)" % hexpr
    return "(%s)(%s)" % (scalar.c, hexpr)


def FnPtrCast(fp):
    return "%s (*)(%s)" % (fp.ret, ", ".join(fp.args) or "void")


def loops(dims, body, depth=0):
    """Nested for-loops over dims; body(index_suffix) -> C statement."""
    idx = ["i%d" % d for d in range(len(dims))]
    s = ""
    for d, n in enumerate(dims):
        s += "for (int %s = 0; %s < %d; %s++) " % (idx[d], idx[d], n, idx[d])
    return s + "{ " + body("".join("[%s]" % i for i in idx)) + " }"


def emit_c(model, recs, header_name="h.h"):
    out = ['#include "%s"' % header_name, C_PRELUDE]
    lay = ["void vf_layout(void) {"]
    for rec in recs:
        T = c_type_name(rec)
        tn = rec.rust_name
        lvs = G.leaves(rec)
        lay.append('  printf("L %s %%zu %%zu\\n", sizeof(%s), (size_t)_Alignof(%s));' % (tn, T, T))
        for lf in lvs:
            if lf.bits is None:
                if lf.fam:
                    lay.append('  printf("O %s %s %%zu -\\n", offsetof(%s, %s));' % (tn, lf.cpath, T, lf.cpath))
                else:
                    lay.append('  printf("O %s %s %%zu %%zu\\n", offsetof(%s, %s), sizeof(((%s *)0)->%s));' % (tn, lf.cpath, T, lf.cpath, T, lf.cpath))
        out.append("void *vf_new_%s(void) { return vf_alloc(sizeof(%s), _Alignof(%s)); }" % (tn, T, T))
        out.append("int vf_check_%s(void *p) { return vf_canary_ok(p, sizeof(%s), _Alignof(%s)); }" % (tn, T, T))
        out.append("void vf_free_%s(void *p) { free((unsigned char *)p - VF_RZ(_Alignof(%s))); }" % (tn, T))
        # fill
        fl = ["void vf_fill_%s(%s *p, int k) {" % (tn, T), "  memset(p, 0, sizeof(*p));", "  switch (k) {"]
        for k in range(K_FILLS):
            fl.append("  case %d:" % k)
            for lf in lvs:
                if not usable(lf):
                    continue
                sc = leaf_scalar(lf)
                h = hval(tn, lf.cpath, k)
                if lf.dims:
                    if sc.kind == "enum":
                        v = enum_value(lf, h)
                        fl.append("    " + loops(lf.dims, lambda sfx: "p->%s%s = (%s)(%s);" % (lf.cpath, sfx, sc.c, G.cval(v))))
                    else:
                        body = lambda sfx: "p->%s%s = %s; j++;" % (lf.cpath, sfx, c_make_expr(lf, sc, "(0x%xULL + j * 0x%xULL)" % (h, STEP), None))
                        fl.append("    { unsigned long long j = 0; " + loops(lf.dims, body) + " }")
                elif sc.kind == "enum":
                    fl.append("    p->%s = (%s)(%s);" % (lf.cpath, sc.c, G.cval(enum_value(lf, h))))
                else:
                    fl.append("    p->%s = %s;" % (lf.cpath, c_make_expr(lf, sc, "0x%xULL" % h, None)))
            fl.append("    break;")
        fl += ["  }", "}"]
        out.append("\n".join(fl))
        # dump
        dl = ["void vf_dump_%s(const %s *p) {" % (tn, T)]
        for lf in lvs:
            if not usable(lf):
                continue
            sc = leaf_scalar(lf)
            fmt, arg = c_show_expr(sc, "p->%s%s" % (lf.cpath, "%s"))
            if lf.dims:
                dl.append('  printf("V %s ");' % lf.cpath)
                dl.append("  " + loops(lf.dims, lambda sfx: 'printf(%s ",", %s);' % (fmt, arg % sfx)))
                dl.append('  printf("\\n");')
            else:
                dl.append('  printf("V %s " %s "\\n", %s);' % (lf.cpath, fmt, arg % ""))
        dl.append('  printf("X "); vf_hex(p, sizeof(*p)); printf("\\n"); fflush(stdout);')
        dl.append("}")
        out.append("\n".join(dl))
        # type table
        for lf in lvs:
            if lf.fam:
                continue
            sc = leaf_scalar(lf)
            if lf.bits is None:
                lay.append('  printf("T %s %s %s %d %%zu\\n", sizeof(%s));' % (
                    tn, lf.cpath, sc.kind, 1 if sc.signed else 0,
                    ("((%s *)0)->%s%s" % (T, lf.cpath, "[0]" * len(lf.dims or [])))))
            else:
                lay.append('  printf("T %s %s %s %d bf\\n");' % (tn, lf.cpath, sc.kind, 1 if sc.signed else 0))
                lay.append('  { static %s o; memset(&o, 0, sizeof o); o.%s = (%s)-1; long bo = -1, nb = 0; const unsigned char *b = (const unsigned char *)&o;'
                           ' for (size_t i = 0; i < sizeof o * 8; i++) if ((b[i / 8] >> (i %% 8)) & 1) { if (bo < 0) bo = (long)i; nb++; }'
                           ' printf("BO %s %s %%ld %%ld %d\\n", bo, nb); }' % (T, lf.cpath, "_Bool" if sc.kind == "bool" else "unsigned long long", tn, lf.cpath, lf.bits))
    lay.append("  fflush(stdout);\n}")
    out.append("\n".join(lay))
    return "\n".join(out) + "\n"


# ----------------------------------------------------------------------------
# Rust side
# ----------------------------------------------------------------------------
RS_PRELUDE = r'''
#![allow(warnings)]
use std::ptr::{addr_of, addr_of_mut};
pub trait VfScalar: Sized {
    const SIGNED: bool;
    const KIND: &'static str;
    const ELEM_SIZE: usize;
    const IS_ARRAY: bool = false;
    fn show(&self, out: &mut String);
    fn make(v: i128, step: bool, idx: &mut u64) -> Self;
}
const VF_STEP: u64 = 0x9E3779B97F4A7C15;
fn vf_h(v: i128, step: bool, idx: &mut u64) -> i128 {
    let r = if step { ((v as u64).wrapping_add((*idx).wrapping_mul(VF_STEP))) as i128 } else { v };
    *idx += 1;
    r
}
macro_rules! vf_int { ($($t:ty, $s:expr);*) => { $(
    impl VfScalar for $t {
        const SIGNED: bool = $s; const KIND: &'static str = "int"; const ELEM_SIZE: usize = std::mem::size_of::<$t>();
        fn show(&self, out: &mut String) { out.push_str(&format!("{}", *self)); }
        fn make(v: i128, step: bool, idx: &mut u64) -> Self { vf_h(v, step, idx) as $t }
    } )* } }
vf_int!(i8, true; i16, true; i32, true; i64, true; i128, true; isize, true; u8, false; u16, false; u32, false; u64, false; u128, false; usize, false);
impl VfScalar for bool {
    const SIGNED: bool = false; const KIND: &'static str = "bool"; const ELEM_SIZE: usize = 1;
    fn show(&self, out: &mut String) { out.push_str(if *self { "1" } else { "0" }); }
    fn make(v: i128, step: bool, idx: &mut u64) -> Self { (vf_h(v, step, idx) & 1) != 0 }
}
impl VfScalar for f32 {
    const SIGNED: bool = true; const KIND: &'static str = "float"; const ELEM_SIZE: usize = 4;
    fn show(&self, out: &mut String) { out.push_str(&format!("f{:08x}", self.to_bits())); }
    fn make(v: i128, step: bool, idx: &mut u64) -> Self { ((vf_h(v, step, idx) & 0xFFFF) as f64 / 4.0) as f32 }
}
impl VfScalar for f64 {
    const SIGNED: bool = true; const KIND: &'static str = "float"; const ELEM_SIZE: usize = 8;
    fn show(&self, out: &mut String) { out.push_str(&format!("d{:016x}", self.to_bits())); }
    fn make(v: i128, step: bool, idx: &mut u64) -> Self { (vf_h(v, step, idx) & 0xFFFF) as f64 / 4.0 }
}
impl<T> VfScalar for *mut T {
    const SIGNED: bool = false; const KIND: &'static str = "ptr"; const ELEM_SIZE: usize = std::mem::size_of::<usize>();
    fn show(&self, out: &mut String) { out.push_str(&format!("p{:x}", *self as usize)); }
    fn make(v: i128, step: bool, idx: &mut u64) -> Self { vf_h(v, step, idx) as u64 as usize as *mut T }
}
impl<T> VfScalar for *const T {
    const SIGNED: bool = false; const KIND: &'static str = "cptr"; const ELEM_SIZE: usize = std::mem::size_of::<usize>();
    fn show(&self, out: &mut String) { out.push_str(&format!("p{:x}", *self as usize)); }
    fn make(v: i128, step: bool, idx: &mut u64) -> Self { vf_h(v, step, idx) as u64 as usize as *const T }
}
impl<F: Copy> VfScalar for Option<F> {
    const SIGNED: bool = false; const KIND: &'static str = "fnptr"; const ELEM_SIZE: usize = std::mem::size_of::<Option<F>>();
    fn show(&self, out: &mut String) {
        assert_eq!(std::mem::size_of::<Option<F>>(), std::mem::size_of::<usize>());
        let u: usize = unsafe { std::mem::transmute_copy(self) };
        out.push_str(&format!("p{:x}", u));
    }
    fn make(v: i128, step: bool, idx: &mut u64) -> Self {
        assert_eq!(std::mem::size_of::<Option<F>>(), std::mem::size_of::<usize>());
        let u = vf_h(v, step, idx) as u64 as usize;
        unsafe { std::mem::transmute_copy(&u) }
    }
}
impl<T: VfScalar, const N: usize> VfScalar for [T; N] {
    const SIGNED: bool = T::SIGNED; const KIND: &'static str = T::KIND; const ELEM_SIZE: usize = T::ELEM_SIZE;
    const IS_ARRAY: bool = true;
    fn show(&self, out: &mut String) { for e in self.iter() { e.show(out); if !T::IS_ARRAY { out.push(','); } } }
    fn make(v: i128, step: bool, idx: &mut u64) -> Self { core::array::from_fn(|_| T::make(v, step, idx)) }
}
fn vf_desc<T: VfScalar>(_p: *const T) -> String { format!("{} {} {}", T::KIND, if T::SIGNED { 1 } else { 0 }, T::ELEM_SIZE) }
fn vf_size<T>(_p: *const T) -> usize { std::mem::size_of::<T>() }
unsafe fn vf_show<T: VfScalar>(p: *const T) -> String { let v = p.read_unaligned(); let mut s = String::new(); v.show(&mut s); std::mem::forget(v); s }
unsafe fn vf_store<T: VfScalar>(p: *mut T, v: i128, step: bool) { let mut idx = 0u64; p.write_unaligned(T::make(v, step, &mut idx)); }
fn vf_showv<T: VfScalar>(v: T) -> String { let mut s = String::new(); v.show(&mut s); s }
fn vf_mk<T: VfScalar>(v: i128) -> T { let mut idx = 0u64; T::make(v, false, &mut idx) }
fn vf_descv<T: VfScalar>(_f: impl Fn() -> T) -> String { format!("{} {} bf", T::KIND, if T::SIGNED { 1 } else { 0 }) }
'''


def rust_ident(name):
    return name


class RustView:
    """What the inventory says bindgen emitted (used to resolve member paths)."""

    def __init__(self, inv):
        self.inv = inv
        self.types = {}
        self.impl_methods = {}
        self.enums = {}
        self.newtypes = {}
        self.aliases = {}
        for it in inv["items"]:
            if it["kind"] in ("struct", "union"):
                self.types[it["name"]] = it
                if it["kind"] == "struct" and it.get("tuple") and len(it["fields"]) == 1 and not it["generics"]:
                    self.newtypes[it["name"]] = it["fields"][0]["ty"]
            elif it["kind"] == "enum":
                self.enums[it["name"]] = it
            elif it["kind"] == "type":
                self.aliases[it["name"]] = it["ty"]
            elif it["kind"] == "impl" and it.get("trait") is None:
                d = self.impl_methods.setdefault(it["self_ty"].replace(" ", ""), {})
                for m in it["methods"]:
                    d[m["name"]] = m

    def field_type_name(self, ty, depth=0):
        ids = re.findall(r"[A-Za-z_][A-Za-z0-9_]*", ty)
        for i in reversed(ids):
            if i in self.types:
                return i
        if depth < 8:
            for i in reversed(ids):
                if i in self.aliases:
                    r = self.field_type_name(self.aliases[i], depth + 1)
                    if r:
                        return r
        return None

    def resolve(self, tname, rpath):
        """Returns (ok, owner_type_name) for a dotted rust path with optional [i] suffixes."""
        cur = tname
        segs = rpath.split(".")
        for n, seg in enumerate(segs):
            base = seg.split("[")[0]
            it = self.types.get(cur)
            if it is None:
                return False, None
            f = [x for x in it["fields"] if x["name"] == base]
            if not f:
                return False, cur
            if n == len(segs) - 1:
                return True, cur
            cur = self.field_type_name(f[0]["ty"])
        return True, cur

    def owner_type(self, tname, owner_path):
        if not owner_path:
            return tname
        cur = tname
        for seg in owner_path.split("."):
            base = seg.split("[")[0]
            it = self.types.get(cur)
            if it is None:
                return None
            f = [x for x in it["fields"] if x["name"] == base]
            if not f:
                return None
            cur = self.field_type_name(f[0]["ty"])
        return cur


def scalar_impls(view):
    """VfScalar impls for the enums and tuple newtypes bindgen generated (names from the inventory)."""
    out = []
    for name, it in sorted(view.enums.items()):
        repr_ = [r for r in it.get("repr", []) if re.fullmatch(r"[iu](8|16|32|64|128|size)", r)]
        if not repr_:
            continue
        r = repr_[0]
        out.append("""impl VfScalar for %(n)s {
    const SIGNED: bool = <%(r)s as VfScalar>::SIGNED; const KIND: &'static str = "enum"; const ELEM_SIZE: usize = std::mem::size_of::<%(r)s>();
    fn show(&self, out: &mut String) { let v: %(r)s = unsafe { std::mem::transmute_copy(self) }; v.show(out); }
    fn make(v: i128, step: bool, idx: &mut u64) -> Self { let x: %(r)s = <%(r)s as VfScalar>::make(v, false, idx); unsafe { std::mem::transmute_copy(&x) } }
}""" % {"n": name, "r": r})
    for name, fty in sorted(view.newtypes.items()):
        if name.startswith("__Bindgen") or name.startswith("__Incomplete"):
            continue
        out.append("""impl VfScalar for %(n)s {
    const SIGNED: bool = <%(t)s as VfScalar>::SIGNED; const KIND: &'static str = <%(t)s as VfScalar>::KIND; const ELEM_SIZE: usize = std::mem::size_of::<%(t)s>();
    fn show(&self, out: &mut String) { self.0.show(out); }
    fn make(v: i128, step: bool, idx: &mut u64) -> Self { %(n)s(<%(t)s as VfScalar>::make(v, step, idx)) }
}""" % {"n": name, "t": fty})
    return out


def emit_rs(model, recs, view, bindings_path, c_naming=False, namespaces=False, layout_only=False, layout_only_recs=()):
    """Returns (source, info). info lists hidden leaves / records per record."""
    out = [RS_PRELUDE, 'include!("%s");' % bindings_path]
    if namespaces:
        out.append("use root::*;")
    info = {"hidden": [], "records": {}, "accessors": 0}
    # scalar impls for generated enums / newtypes
    for name, it in sorted(view.enums.items()):
        repr_ = [r for r in it.get("repr", []) if re.fullmatch(r"[iu](8|16|32|64|128|size)", r)]
        if not repr_:
            continue
        r = repr_[0]
        out.append("""impl VfScalar for %(n)s {
    const SIGNED: bool = <%(r)s as VfScalar>::SIGNED; const KIND: &'static str = "enum"; const ELEM_SIZE: usize = std::mem::size_of::<%(r)s>();
    fn show(&self, out: &mut String) { let v: %(r)s = unsafe { std::mem::transmute_copy(self) }; v.show(out); }
    fn make(v: i128, step: bool, idx: &mut u64) -> Self { let x: %(r)s = <%(r)s as VfScalar>::make(v, false, idx); unsafe { std::mem::transmute_copy(&x) } }
}""" % {"n": name, "r": r})
    for name, fty in sorted(view.newtypes.items()):
        if name.startswith("__Bindgen") or name.startswith("__Incomplete"):
            continue
        out.append("""impl VfScalar for %(n)s {
    const SIGNED: bool = <%(t)s as VfScalar>::SIGNED; const KIND: &'static str = <%(t)s as VfScalar>::KIND; const ELEM_SIZE: usize = std::mem::size_of::<%(t)s>();
    fn show(&self, out: &mut String) { self.0.show(out); }
    fn make(v: i128, step: bool, idx: &mut u64) -> Self { %(n)s(<%(t)s as VfScalar>::make(v, step, idx)) }
}""" % {"n": name, "t": fty})
    ext = ['extern "C" {', "    fn vf_layout();"]
    # (the body runs on a thread with a very large, lazily committed stack: generated records can be hundreds of MiB and are moved by value)
    main = ["fn main() { std::thread::Builder::new().stack_size(16usize << 30).spawn(vf_main).unwrap().join().unwrap(); }",
            "fn vf_main() { unsafe {", "    vf_layout();"]
    for rec in recs:
        tn = rec.rust_name
        rt = ("%s_%s" % (rec.kw, tn)) if c_naming else tn
        lvs = G.leaves(rec)
        rinfo = {"leaves": 0, "hidden": [], "bitfields": 0}
        info["records"][tn] = rinfo
        if rt not in view.types:
            info["hidden"].append((tn, "<type>", "type not emitted"))
            rinfo["missing"] = True
            continue
        ext.append("    fn vf_new_%s() -> *mut %s; fn vf_check_%s(p: *mut %s) -> i32; fn vf_free_%s(p: *mut %s);" % (tn, rt, tn, rt, tn, rt))
        ext.append("    fn vf_fill_%s(p: *mut %s, k: i32); fn vf_dump_%s(p: *const %s);" % (tn, rt, tn, rt))
        main.append('    println!("RL %s {} {}", std::mem::size_of::<%s>(), std::mem::align_of::<%s>());' % (tn, rt, rt))
        ok_leaves = []
        if layout_only or tn in layout_only_recs:
            continue
        for lf in lvs:
            if lf.bits is not None:
                owner = view.owner_type(rt, lf.accessor_owner)
                name = lf.rpath.split(".")[-1]
                meths = view.impl_methods.get(owner or "", {})
                if owner is None or name not in meths or ("set_" + name) not in meths:
                    rinfo["hidden"].append(lf.cpath)
                    info["hidden"].append((tn, lf.cpath, "bit-field accessor missing"))
                    continue
                rinfo["bitfields"] += 1
                ok_leaves.append(lf)
            else:
                ok, _ = view.resolve(rt, lf.rpath)
                if not ok:
                    rinfo["hidden"].append(lf.cpath)
                    info["hidden"].append((tn, lf.cpath, "member not reachable in bindings"))
                    continue
                ok_leaves.append(lf)
        rinfo["leaves"] = len(ok_leaves)
        hidden = bool(rinfo["hidden"])
        main.append("    { let p0 = vf_new_%s(); let p = p0;" % tn)
        for lf in ok_leaves:
            if lf.bits is None:
                sz = "-" if lf.fam else "{}"
                if lf.fam:
                    main.append('      println!("RO %s %s {} -", addr_of!((*p).%s) as usize - p as usize);' % (tn, lf.cpath, lf.rpath))
                else:
                    main.append('      println!("RO %s %s {} {}", addr_of!((*p).%s) as usize - p as usize, vf_size(addr_of!((*p).%s)));' % (tn, lf.cpath, lf.rpath, lf.rpath))
                    main.append('      println!("RT %s %s {}", vf_desc(addr_of!((*p).%s)));' % (tn, lf.cpath, lf.rpath))
            else:
                owner = ("addr_of!((*p).%s).read_unaligned()" % lf.accessor_owner) if lf.accessor_owner else "(*p)"
                name = lf.rpath.split(".")[-1]
                main.append('      println!("RT %s %s {}", vf_descv(|| %s.%s()));' % (tn, lf.cpath, owner, name))
        if hidden:
            main.append("      vf_free_%s(p0); }" % tn)
            continue
        for k in range(K_FILLS):
            main.append('      vf_fill_%s(p, %d); println!("BEGIN CC %s %d"); vf_dump_%s(p);' % (tn, k, tn, k, tn))
            main.append('      println!("BEGIN CR %s %d");' % (tn, k))
            use_raw = (k == 1)
            for lf in ok_leaves:
                if not usable(lf):
                    continue
                if lf.bits is None:
                    main.append('      println!("V %s {}", vf_show(addr_of!((*p).%s)));' % (lf.cpath, lf.rpath))
                else:
                    name = lf.rpath.split(".")[-1]
                    info["accessors"] += 1
                    if use_raw:
                        oty = view.owner_type(rt, lf.accessor_owner)
                        optr = ("addr_of!((*p).%s)" % lf.accessor_owner) if lf.accessor_owner else "p as *const %s" % rt
                        if (name + "_raw") in view.impl_methods.get(oty, {}):
                            main.append('      println!("V %s {}", vf_showv(%s::%s_raw(%s)));' % (lf.cpath, oty, name, optr))
                            continue
                    owner = ("addr_of!((*p).%s).read_unaligned()" % lf.accessor_owner) if lf.accessor_owner else "(*p)"
                    main.append('      println!("V %s {}", vf_showv(%s.%s()));' % (lf.cpath, owner, name))
            main.append('      println!("X -");')
            # Rust fills, C dumps
            main.append("      std::ptr::write_bytes(p as *mut u8, 0, std::mem::size_of::<%s>());" % rt)
            ctor_done = set()
            for lf in ok_leaves:
                if not usable(lf):
                    continue
                sc = leaf_scalar(lf)
                h = hval(tn, lf.cpath, k)
                if sc.kind == "enum":
                    v, step = enum_value(lf, h), "false"
                else:
                    v, step = h, "true"
                if lf.bits is None:
                    main.append("      vf_store(addr_of_mut!((*p).%s), %d, %s);" % (lf.rpath, v, step))
                else:
                    name = lf.rpath.split(".")[-1]
                    oty = view.owner_type(rt, lf.accessor_owner)
                    meths = view.impl_methods.get(oty, {})
                    if k == 1 and ("set_" + name + "_raw") in meths:
                        optr = ("addr_of_mut!((*p).%s)" % lf.accessor_owner) if lf.accessor_owner else "p"
                        main.append("      %s::set_%s_raw(%s, vf_mk(%d));" % (oty, name, optr, v))
                    else:
                        if lf.accessor_owner:
                            main.append("      { let mut o = addr_of!((*p).%s).read_unaligned(); o.set_%s(vf_mk(%d)); addr_of_mut!((*p).%s).write_unaligned(o); }" % (lf.accessor_owner, name, v, lf.accessor_owner))
                        else:
                            main.append("      (*p).set_%s(vf_mk(%d));" % (name, v))
            main.append('      println!("BEGIN RC %s %d"); vf_dump_%s(p);' % (tn, k, tn))
        # constructor path (k = 0 values) for bit-field units directly inside this record
        meths = view.impl_methods.get(rt, {})
        ctors = sorted(m for m in meths if re.fullmatch(r"new_bitfield_\d+", m))
        direct = {lf.rpath: lf for lf in ok_leaves if lf.bits is not None and not lf.accessor_owner}
        if ctors and direct and rec.kw == "struct":
            main.append("      vf_fill_%s(p, 2);" % tn)
            okc = True
            for c in ctors:
                sig = meths[c]["sig"]
                args = re.findall(r"([A-Za-z_][A-Za-z0-9_]*)\s*:", sig.split("(", 1)[1])
                vals = []
                for a in args:
                    lf = direct.get(a)
                    if lf is None or not usable(lf):
                        okc = False
                        break
                    sc = leaf_scalar(lf)
                    h = hval(tn, lf.cpath, 2)
                    vals.append("vf_mk(%d)" % (enum_value(lf, h) if sc.kind == "enum" else h))
                if not okc:
                    break
                unit = "_bitfield_" + c.rsplit("_", 1)[1]
                main.append("      addr_of_mut!((*p).%s).write_unaligned(%s::%s(%s));" % (unit, rt, c, ", ".join(vals)))
            if okc:
                info["ctor_records"] = info.get("ctor_records", 0) + 1
                main.append('      println!("BEGIN KC %s 2"); vf_dump_%s(p);' % (tn, tn))
        main.append('      println!("CANARY %s {}", vf_check_%s(p0)); vf_free_%s(p0); }' % (tn, tn, tn))
    ext.append("}")
    main.append("} }")
    return "\n".join(out + ext + main) + "\n", info


# ----------------------------------------------------------------------------
# comparison
# ----------------------------------------------------------------------------
class Mismatch:
    def __init__(self, kind, text, sig=None, tn=None, path=None):
        self.kind, self.text, self.sig, self.tn, self.path = kind, text, sig, tn, path

    def __str__(self):
        return self.text


def parse_bo(output):
    bo = {}
    for line in output.splitlines():
        if line.startswith("BO "):
            p = line.split(" ")
            bo[(p[1], p[2])] = (int(p[3]), int(p[4]), int(p[5]))
    return bo


def span_over_64(bo):
    return [k for k, (off, nb, w) in bo.items() if off >= 0 and off % 8 + w > 64]


def compare(output, model, recs, info):
    """Returns (mismatches:list[Mismatch], obs:dict)."""
    mism = []
    obs = {"sizes": 0, "aligns": 0, "offsets": 0, "member_types": 0, "values_c_to_rust": 0,
           "values_rust_to_c": 0, "objects_bytewise": 0, "canaries": 0, "bitfield_positions": 0, "ctor_objects": 0}
    leafmap = {}
    for rec in recs:
        for lf in G.leaves(rec):
            leafmap[(rec.rust_name, lf.cpath)] = lf
    L, RL, O, RO, T, RT = {}, {}, {}, {}, {}, {}
    sections = {}
    cur = None
    canary = {}
    bo = parse_bo(output)
    for line in output.splitlines():
        p = line.split(" ")
        tag = p[0]
        if tag == "L":
            L[p[1]] = (p[2], p[3])
        elif tag == "RL":
            RL[p[1]] = (p[2], p[3])
        elif tag == "O":
            O[(p[1], p[2])] = (p[3], p[4])
        elif tag == "RO":
            RO[(p[1], p[2])] = (p[3], p[4])
        elif tag == "T":
            T[(p[1], p[2])] = (p[3], p[4], p[5])
        elif tag == "RT":
            RT[(p[1], p[2])] = (p[3], p[4], p[5])
        elif tag == "BEGIN":
            cur = (p[1], p[2], p[3])
            sections[cur] = []
        elif tag in ("V", "X") and cur is not None:
            sections[cur].append(line)
        elif tag == "CANARY":
            canary[p[1]] = p[2]
    for key, (off, nb, w) in bo.items():
        obs["bitfield_positions"] += 1
        lf = leafmap.get(key)
        if nb != w and not (lf is not None and leaf_kind(lf) == "bool"):
            pass  # enum-typed / bool bit-fields may not take all-ones; informational only
    for tn, (s, a) in RL.items():
        if tn not in L:
            continue
        obs["sizes"] += 1
        obs["aligns"] += 1
        if L[tn][0] != s:
            mism.append(Mismatch("size", "size of %s: C %s, Rust %s" % (tn, L[tn][0], s), tn=tn))
        if L[tn][1] != a:
            mism.append(Mismatch("align", "alignment of %s: C %s, Rust %s" % (tn, L[tn][1], a), tn=tn))
    for key, (off, sz) in RO.items():
        if key not in O:
            continue
        obs["offsets"] += 1
        if O[key] != (off, sz):
            mism.append(Mismatch("offset", "member %s.%s: C offset/size %s, Rust %s" % (key[0], key[1], O[key], (off, sz)), tn=key[0], path=key[1]))
    for key, (kind, sg, sz) in RT.items():
        if key not in T:
            continue
        ck, cs, csz = T[key]
        obs["member_types"] += 1
        if ck == "enum" or kind == "enum":
            if csz != sz and sz != "bf":
                mism.append(Mismatch("type", "member %s.%s: enum width C %s, Rust %s" % (key[0], key[1], csz, sz), tn=key[0], path=key[1]))
            continue
        kk = "ptr" if ck == "fnptr" else ck
        rk = "ptr" if kind in ("fnptr", "cptr") else kind
        if (kk, cs, csz) != (rk, sg, sz):
            mism.append(Mismatch("type", "member %s.%s: C kind/signed/width %s, Rust %s" % (key[0], key[1], (ck, cs, csz), (kind, sg, sz)), tn=key[0], path=key[1]))
    for (which, tn, k), lines in sections.items():
        if which == "CC":
            continue
        ref = sections.get(("CC", tn, "2" if which == "KC" else k))
        if ref is None:
            mism.append(Mismatch("harness", "no C reference section for %s %s" % (tn, k)))
            continue
        refv = [x for x in ref if x.startswith("V ")]
        gotv = [x for x in lines if x.startswith("V ")]
        if which == "CR":
            obs["values_c_to_rust"] += len(gotv)
        elif which == "RC":
            obs["values_rust_to_c"] += len(gotv)
        else:
            obs["ctor_objects"] += 1
        if len(refv) != len(gotv):
            mism.append(Mismatch("harness", "%s %s fill %s: %d values expected, %d seen" % (which, tn, k, len(refv), len(gotv))))
        nbad = 0
        for a, b in zip(refv, gotv):
            if a != b:
                nbad += 1
                pa, pb = a.split(" "), b.split(" ")
                sig = None
                lf = leafmap.get((tn, pa[1]))
                if which == "CR" and lf is not None and lf.bits is not None and pa[1] == pb[1]:
                    try:
                        cv, rv = int(pa[2]), int(pb[2])
                        sc = leaf_scalar(lf)
                        tbits = 64 if sc.kind == "enum" else sc.bits      # (the enum's underlying type may be wider than int)
                        if sc.signed and cv < 0 and rv == cv + (1 << lf.bits) and lf.bits < tbits:
                            sig = "c03.signed-getter-zero-extended"
                    except ValueError:
                        pass
                mism.append(Mismatch("value-" + which, "%s %s fill %s: C says `%s`, other side says `%s`" % (which, tn, k, a, b), sig=sig, tn=tn, path=pa[1]))
                if nbad > 30:
                    break
        if which in ("RC", "KC"):
            rx = [x for x in ref if x.startswith("X ")]
            gx = [x for x in lines if x.startswith("X ")]
            if rx and gx:
                obs["objects_bytewise"] += 1
                if rx != gx:
                    mism.append(Mismatch("bytes-" + which, "%s %s fill %s: whole-object bytes differ: C-filled %s vs %s" % (which, tn, k, rx[0][:300], gx[0][:300]), tn=tn))
    for tn, okv in canary.items():
        obs["canaries"] += 1
        if okv != "1":
            mism.append(Mismatch("canary", "red-zone around %s object was overwritten" % tn, tn=tn))
    return mism, obs
