"""Declaration graphs for allowlist / blocklist checks: every item has a kind, a C name, and the set of items it needs."""

SC = ["int", "char", "unsigned long", "double", "short"]


class Item:
    def __init__(self, kind, name, text, needs, extra=None):
        self.kind = kind      # type | function | var
        self.sub = None       # struct | typedef | enum | anon_enum | macro | fn | global
        self.name = name
        self.text = text
        self.needs = set(needs)
        self.mneeds = set()          # needed only through the signatures of (virtual) methods: when methods or vtables are generated
        self.members = extra or []   # enumerator names for enums


def generate(rng, n=None, cxx=False):
    n = n or rng.randint(8, 22)
    items = []
    types = []   # (spelling, needed item name or None)
    int_typedefs = []

    def pick_type(allow_void=False):
        if types and rng.random() < 0.6:
            sp, need = rng.choice(types)
            if rng.random() < 0.4 and not sp.endswith("*"):
                return sp + " *", need
            return sp, need
        if allow_void and rng.random() < 0.2:
            return "void", None
        return rng.choice(SC), None
    # names: include proper prefixes of other names so that unanchored matching would over-select
    suffixes = ["1", "10", "1x", "2", "21", "3", "30", "4", "x4", "5", "55", "6", "7", "70", "8", "9", "90", "a", "ab", "b"]
    rng.shuffle(suffixes)
    k = 0
    for i in range(n):
        sfx = suffixes[k % len(suffixes)] + ("_%d" % (k // len(suffixes)) if k >= len(suffixes) else "")
        k += 1
        r = rng.random()
        if cxx and r < 0.12:
            # polymorphic class: the types of its (pure) virtual methods' signatures are needed by the generated vtable struct
            name = "S_" + sfx
            needs, meths = set(), []
            for j in range(rng.randint(1, 3)):
                rsp, need = pick_type(allow_void=True)
                if need:
                    needs.add(need)
                ps = []
                for q in range(rng.randint(0, 2)):
                    sp, need2 = pick_type()
                    ps.append("%s a%d" % (sp, q))
                    if need2:
                        needs.add(need2)
                meths.append("virtual %s pm%d(%s)%s;" % (rsp, j, ", ".join(ps), rng.choice([" = 0", " = 0", ""])))
            it = Item("type", name, "struct %s { %s int plain; };" % (name, " ".join(meths)), [])
            it.mneeds = set(needs)
            it.sub = "struct"
            items.append(it)
            types.append(("struct " + name + " *", name))       # possibly abstract: only ever used through pointers
            continue
        if r < 0.3:
            name = "S_" + sfx
            fields, needs = [], set()
            for j in range(rng.randint(1, 4)):
                sp, need = pick_type()
                if sp.startswith("struct S_") and not sp.endswith("*") and need == name:
                    sp = sp + " *"
                fields.append("%s m%d;" % (sp, j))
                if need:
                    needs.add(need)
            if rng.random() < 0.3:
                # function-pointer member referring to another type
                sp, need = pick_type()
                fields.append("int (*cb)(%s);" % (sp if sp != "void" else "int"))
                if need:
                    needs.add(need)
            it = Item("type", name, "struct %s { %s };" % (name, " ".join(fields)), needs)
            it.sub = "struct"
            items.append(it)
            types.append(("struct " + name, name))
        elif r < 0.42:
            name = "T_" + sfx
            sp, need = pick_type()
            if rng.random() < 0.3:
                # typedef of a function pointer: its parameter / return types are needed like any member type
                sp2, need2 = pick_type()
                rsp, need3 = pick_type(allow_void=True)
                it = Item("type", name, "typedef %s (*%s)(%s a, %s b);" % (rsp, name, sp, sp2), [n_ for n_ in (need, need2, need3) if n_])
                it.sub = "typedef"
                items.append(it)
                types.append((name, name))
                continue
            it = Item("type", name, "typedef %s %s;" % (sp, name), [need] if need else [])
            it.sub = "typedef"
            items.append(it)
            types.append((name, name))
            if need is None and sp in ("int", "char", "unsigned long", "short"):
                int_typedefs.append(name)
        elif r < 0.52:
            name = "E_" + sfx
            mem = ["%s_v%d" % (name, j) for j in range(rng.randint(1, 3))]
            if cxx and rng.random() < 0.7:
                if not int_typedefs or rng.random() < 0.3:
                    tn = "T_u" + sfx
                    ti = Item("type", tn, "typedef %s %s;" % (rng.choice(["int", "char", "unsigned long", "short"]), tn), [])
                    ti.sub = "typedef"
                    items.append(ti)
                    types.append((tn, tn))
                    int_typedefs.append(tn)
                # fixed underlying type spelled through a user typedef: the enum needs it (its repr / alias names it) whatever style it is emitted in
                und = rng.choice(int_typedefs)
                it = Item("type", name, "enum %s : %s { %s };" % (name, und, ", ".join(mem)), [und], mem)
            else:
                it = Item("type", name, "enum %s { %s };" % (name, ", ".join(mem)), [], mem)
            it.sub = "enum"
            items.append(it)
            types.append(("enum " + name, name))
        elif r < 0.6:
            mem = ["AN_%s_v%d" % (sfx, j) for j in range(rng.randint(1, 3))]
            it = Item("var", mem[0], "enum { %s };" % ", ".join(mem), [], mem)
            it.sub = "anon_enum"
            items.append(it)
        elif r < 0.68:
            name = "M_" + sfx
            it = Item("var", name, "#define %s %d" % (name, rng.randint(1, 999)), [])
            it.sub = "macro"
            items.append(it)
        elif r < 0.8:
            name = "v_" + sfx
            sp, need = pick_type()
            it = Item("var", name, "extern %s %s;" % (sp, name), [need] if need else [])
            it.sub = "global"
            items.append(it)
        else:
            name = "f_" + sfx
            needs = set()
            rsp, need = pick_type(allow_void=True)
            if need:
                needs.add(need)
            params = []
            for j in range(rng.randint(0, 3)):
                sp, need = pick_type()
                params.append("%s a%d" % (sp, j))
                if need:
                    needs.add(need)
            it = Item("function", name, "%s %s(%s);" % (rsp, name, ", ".join(params) or "void"), needs)
            it.sub = "fn"
            items.append(it)
    return items


def header(items):
    # structs referenced by pointer before definition need forward declarations: declare all struct tags first
    fw = "\n".join("struct %s;" % it.name for it in items if it.sub == "struct")
    return fw + "\n" + "\n".join(it.text for it in items) + "\n"


def closure(items, roots):
    by = {it.name: it for it in items}
    seen = set()
    stack = list(roots)
    while stack:
        x = stack.pop()
        if x in seen or x not in by:
            continue
        seen.add(x)
        stack.extend(by[x].needs | by[x].mneeds)
    return seen
