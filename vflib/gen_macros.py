"""Typed C constant-expression grammar for object-like macros (LP64), with a small evaluator that is used
only to keep generated expressions free of undefined behaviour and to classify mismatches; clang is the oracle."""

TYPES = {"int": (32, True), "uint": (32, False), "long": (64, True), "ulong": (64, False)}
CNAME = {"int": "int", "uint": "unsigned int", "long": "long", "ulong": "unsigned long"}


class UB(Exception):
    pass


def wrap(v, ty):
    bits, signed = TYPES[ty]
    v &= (1 << bits) - 1
    if signed and v >> (bits - 1):
        v -= 1 << bits
    return v


def fits(v, ty):
    bits, signed = TYPES[ty]
    if signed:
        return -(1 << (bits - 1)) <= v < (1 << (bits - 1))
    return 0 <= v < (1 << bits)


def common(a, b):
    if a == b:
        return a
    (ba, sa), (bb, sb) = TYPES[a], TYPES[b]
    if sa == sb:
        return a if ba >= bb else b
    u, s = (a, b) if not sa else (b, a)
    if TYPES[u][0] >= TYPES[s][0]:
        return u
    return s   # signed type is wider: it can represent all values of the unsigned one


def w64(v):
    v &= (1 << 64) - 1
    return v - (1 << 64) if v >> 63 else v


class E:
    """text, C type, C value; v64 = what an evaluator working in untyped wrapping i64 would compute (None if unknown);
    unsigned = an unsigned operand whose typed evaluation can differ from untyped i64 evaluation took part."""
    def __init__(self, text, ty, val, v64=None, unsigned=False):
        self.text, self.ty, self.val, self.v64, self.unsigned = text, ty, val, v64, unsigned or ty in ("uint", "ulong")


def literal(rng):
    form = rng.choice(["dec", "dec", "hex", "oct", "bin", "char"])
    if form == "char":
        c = rng.choice(["a", "Z", "0", "\\n", "\\0", "\\x7f", "\\\\", "\\'", " ", "~", "\\101"])
        val = {"\\n": 10, "\\0": 0, "\\x7f": 127, "\\\\": 92, "\\'": 39, "\\101": 65}.get(c, ord(c[0]))
        return E("'%s'" % c, "int", val, v64=val)
    mag = rng.choice([0, 1, 2, 7, 8, 255, 256, 1000, 65535, 65536, 2147483647, 2147483648, 4294967295, 4294967296,
                      9223372036854775807, rng.randrange(1 << 16), rng.randrange(1 << 31), rng.randrange(1 << 40), rng.randrange(1 << 63)])
    sfx = rng.choice(["", "", "", "u", "U", "l", "L", "ul", "UL", "ll", "LL", "ull", "uLL"])
    if form == "dec":
        body = str(mag)
        cands = {"": ["int", "long"], "u": ["uint", "ulong"], "l": ["long"], "ul": ["ulong"]}
    else:
        body = {"hex": hex(mag), "oct": "0" + oct(mag)[2:] if mag else "0", "bin": bin(mag)}[form]
        cands = {"": ["int", "uint", "long", "ulong"], "u": ["uint", "ulong"], "l": ["long", "ulong"], "ul": ["ulong"]}
    key = sfx.lower().replace("ll", "l")
    for ty in cands[key]:
        if fits(mag, ty):
            return E(body + sfx, ty, mag, v64=w64(mag))
    # too large for the chosen form: fall back to an unsigned long long literal
    return E(str(mag) + "ULL", "ulong", mag, v64=w64(mag))


def binop(op, a, b):
    if op in ("&&", "||"):
        r = (a.val != 0 and b.val != 0) if op == "&&" else (a.val != 0 or b.val != 0)
        return "int", int(r)
    if op in ("<<", ">>"):
        ty = a.ty
        bits, signed = TYPES[ty]
        if b.val < 0 or b.val >= bits:
            raise UB()
        if op == "<<":
            if signed and (a.val < 0 or not fits(a.val << b.val, ty)):
                raise UB()
            return ty, wrap(a.val << b.val, ty)
        if signed and a.val < 0:
            raise UB()       # implementation-defined; keep out of the generated set
        return ty, a.val >> b.val
    ty = common(a.ty, b.ty)
    x, y = wrap(a.val, ty), wrap(b.val, ty)
    bits, signed = TYPES[ty]
    if op in ("<", ">", "<=", ">=", "==", "!="):
        return "int", int({"<": x < y, ">": x > y, "<=": x <= y, ">=": x >= y, "==": x == y, "!=": x != y}[op])
    if op in ("/", "%"):
        if y == 0 or (signed and x == -(1 << (bits - 1)) and y == -1):
            raise UB()
        q = abs(x) // abs(y)
        if (x < 0) != (y < 0):
            q = -q
        r = x - q * y
        return ty, (q if op == "/" else r)
    r = {"+": x + y, "-": x - y, "*": x * y, "&": x & y, "|": x | y, "^": x ^ y}[op]
    if signed and op in ("+", "-", "*") and not fits(r, ty):
        raise UB()
    return ty, wrap(r, ty)


def expr(rng, depth, env):
    r = rng.random()
    if depth <= 0 or r < 0.3:
        if env and rng.random() < 0.3:
            n, e = rng.choice(env)
            return E(n, e.ty, e.val, e.v64, e.unsigned)
        return literal(rng)
    if r < 0.42:
        op = rng.choice(["-", "~", "!", "+"])
        a = expr(rng, depth - 1, env)
        u = a.unsigned
        if op == "!":
            return E("!(%s)" % a.text, "int", int(a.val == 0), None if a.v64 is None else int(a.v64 == 0), u)
        bits, signed = TYPES[a.ty]
        if op == "-":
            v = -a.val
            if signed and not fits(v, a.ty):
                raise UB()
            return E("-(%s)" % a.text, a.ty, wrap(v, a.ty), None if a.v64 is None else w64(-a.v64), u)
        if op == "~":
            return E("~(%s)" % a.text, a.ty, wrap(~a.val, a.ty), None if a.v64 is None else w64(~a.v64), u)
        return E("+(%s)" % a.text, a.ty, a.val, a.v64, u)
    if r < 0.8:
        op = rng.choice(["+", "-", "*", "/", "%", "<<", ">>", "&", "|", "^", "&&", "||", "<", ">", "==", "!=", "<=", ">="])
        a, b = expr(rng, depth - 1, env), expr(rng, depth - 1, env)
        ty, v = binop(op, a, b)
        return E("(%s %s %s)" % (a.text, op, b.text), ty, v, binop64(op, a.v64, b.v64), a.unsigned or b.unsigned)
    if r < 0.88:
        c, a, b = expr(rng, depth - 1, env), expr(rng, depth - 1, env), expr(rng, depth - 1, env)
        ty = common(a.ty, b.ty)
        v = wrap(a.val if c.val != 0 else b.val, ty)
        v64 = None if None in (c.v64, a.v64, b.v64) else (a.v64 if c.v64 != 0 else b.v64)
        return E("((%s) ? (%s) : (%s))" % (c.text, a.text, b.text), ty, v, v64, a.unsigned or b.unsigned or c.unsigned)
    if r < 0.96:
        a = expr(rng, depth - 1, env)
        target = rng.choice(["int", "uint", "long", "ulong", "char", "uchar", "short", "ushort", "llong", "ullong"])
        spell = {"int": "int", "uint": "unsigned int", "long": "long", "ulong": "unsigned long", "char": "signed char", "uchar": "unsigned char",
                 "short": "short", "ushort": "unsigned short", "llong": "long long", "ullong": "unsigned long long"}[target]
        small = {"char": (8, True), "uchar": (8, False), "short": (16, True), "ushort": (16, False)}
        if target in small:
            bits, signed = small[target]
            v = a.val & ((1 << bits) - 1)
            if signed and v >> (bits - 1):
                v -= 1 << bits
            return E("((%s)%s)" % (spell, a.text), "int", v, None, True)      # promoted to int when used; casts: untyped value unknown
        ty = {"llong": "long", "ullong": "ulong"}.get(target, target)
        return E("((%s)%s)" % (spell, a.text), ty, wrap(a.val, ty), None, True)
    t = rng.choice([("char", 1), ("short", 2), ("int", 4), ("long", 8), ("double", 8), ("void *", 8), ("long long", 8)])
    return E("sizeof(%s)" % t[0], "ulong", t[1], None, True)


def binop64(op, x, y):
    """untyped wrapping-i64 evaluation (None = unknown)"""
    if x is None or y is None:
        return None
    try:
        if op == "&&":
            return int(x != 0 and y != 0)
        if op == "||":
            return int(x != 0 or y != 0)
        if op == "<<":
            return w64(x << (y & 63)) if 0 <= y < 64 else None
        if op == ">>":
            return x >> y if 0 <= y < 64 else None
        if op in ("<", ">", "<=", ">=", "==", "!="):
            return int({"<": x < y, ">": x > y, "<=": x <= y, ">=": x >= y, "==": x == y, "!=": x != y}[op])
        if op in ("/", "%"):
            if y == 0:
                return None
            q = abs(x) // abs(y)
            if (x < 0) != (y < 0):
                q = -q
            return w64(q) if op == "/" else w64(x - q * y)
        return w64({"+": x + y, "-": x - y, "*": x * y, "&": x & y, "|": x | y, "^": x ^ y}[op])
    except Exception:
        return None


def generate(rng, n=20, prefix="M"):
    """Returns list of dicts: name, text, kind (int|float|str|char|hostile), eval (ty, val) for ints."""
    out, env = [], []
    for i in range(n):
        name = "%s%d" % (prefix, i)
        r = rng.random()
        if r < 0.62:
            for _ in range(20):
                try:
                    e = expr(rng, rng.randint(0, 4), env)
                    break
                except UB:
                    continue
            else:
                e = literal(rng)
            text = e.text
            if rng.random() < 0.5 and not text.startswith("("):
                text = "(%s)" % text
            out.append({"name": name, "text": text, "kind": "int", "ty": e.ty, "val": e.val, "v64": e.v64, "unsigned": e.unsigned})
            env.append((name, e))
        elif r < 0.72:
            f = rng.choice(["1.5", "0.25f", "1e10", "3.0e-3", ".5", "2.", "0x1p4", "0x1.8p1", "1.0L", "123456789.125", "1e308", "4.9e-324",
                            "12345678901234567890.0", "1.2345678901234567e+200", "0.1", "2.2250738585072014e-308", "1.7976931348623157e308",
                            "9007199254740993.0", "5e-324", "0.30000000000000004"])
            if rng.random() < 0.4:
                # a random double in its shortest round-trip decimal form (up to 17 significant digits), over the whole exponent range
                import struct
                bits = rng.getrandbits(64) & 0x7FFFFFFFFFFFFFFF
                d_ = struct.unpack("<d", struct.pack("<Q", bits))[0]
                if d_ == d_ and d_ not in (float("inf"),) and d_ != 0.0:
                    f = repr(d_)
            neg = rng.random() < 0.3
            out.append({"name": name, "text": ("-" if neg else "") + f, "kind": "float"})
        elif r < 0.84:
            s = rng.choice(["hello", "", "a\\\\b", "tab\\there", "nul\\0mid", "q\\\"uote", "\\x41\\x42", "\\101\\102", "caf\\xc3\\xa9", "100%", "new\\nline",
                            "a" "\" \"" "b", "ab\\0cd\\0", "\\0", "abc\" \"\\0", "x\\0\\0", "\\000", "end\\x00"])
            out.append({"name": name, "text": "\"%s\"" % s, "kind": "str"})
        elif r < 0.9:
            c = rng.choice(["'a'", "'\\0'", "'\\xff'", "'\\377'", "'\\n'", "'~'"])
            out.append({"name": name, "text": c, "kind": "char"})
        else:
            h = rng.choice(["(1/0)", "(1%0)", "(1 << 64)", "(1 << -1)", "(-1 >> 70)", "(2147483647 + 1)", "(-9223372036854775807 - 2)", "M_undefined_other + 1",
                            "sizeof(struct nope)", "((void)0, 1)", "{1, 2}", "do_something()", "__LINE__", "__COUNTER__", "(int)1.5", "1.0/0", "(0.0/0.0)"])
            out.append({"name": name, "text": h, "kind": "hostile"})
        if rng.random() < 0.06 and out:
            # redefinition after #undef: the last definition wins
            prev = out[-1]
            if prev["kind"] == "int":
                out.append({"undef": prev["name"]})
                e2 = literal(rng)
                out.append({"name": prev["name"], "text": e2.text, "kind": "int", "ty": e2.ty, "val": e2.val, "redef": True, "v64": e2.v64, "unsigned": e2.unsigned})
                env = [(n_, e_) for n_, e_ in env if n_ != prev["name"]]   # later references see the new value; keep it simple: drop
    return out


def header(macros):
    lines = []
    for m in macros:
        if "undef" in m:
            lines.append("#undef %s" % m["undef"])
        else:
            lines.append("#define %s %s" % (m["name"], m["text"]))
    return "\n".join(lines) + "\n"
