"""Miri runs of the helper crates (nightly toolchain, own target dir)."""
import os

from .core import BUILD, VERIF, run

MIRI_TARGET = os.path.join(BUILD, "miri-target")


def miri_run(package, args, timeout=1500, flags="-Zmiri-disable-isolation"):
    env = {"CARGO_TARGET_DIR": MIRI_TARGET, "CARGO_NET_OFFLINE": "true", "MIRIFLAGS": flags,
           "CARGO_TERM_COLOR": "never"}
    env.pop("RUSTFLAGS", None)
    return run(["cargo", "+nightly", "miri", "run", "--offline", "-q", "-p", package, "--"] + list(args),
               cwd=os.path.join(VERIF, "rs"), env=env, timeout=timeout)


def warm():
    rc, out, err, _ = miri_run("vf-bf", ["boundary", "1", "0", "4000"], timeout=1800)
    if rc != 0 or "SUMMARY" not in out:
        print("miri warm-up: rc=%s (Miri-based sub-checks will report inconclusive)\n%s" % (rc, err[-800:]))
