"""H-FUNCS: generated function / global libraries, a C implementation that reports what it received,
and a Rust caller that goes through the bindings.  All expected values are fixed by the orchestrator."""
import re

from . import probes
from .core import sha

INTS = [("signed char", True, 8), ("unsigned char", False, 8), ("char", True, 8), ("short", True, 16), ("unsigned short", False, 16),
        ("int", True, 32), ("unsigned int", False, 32), ("long", True, 64), ("unsigned long", False, 64), ("long long", True, 64),
        ("unsigned long long", False, 64)]


class T:
    """A C type usable as parameter / return / global."""
    def __init__(self, c, kind, signed=False, bits=0, rec=None, enum=None, const_pointee=False, rust=None):
        self.c, self.kind, self.signed, self.bits = c, kind, signed, bits   # kind: int bool float ptr enum record fnptr
        self.rec, self.enum, self.const_pointee = rec, enum, const_pointee


NRH = T("vf_nrh_t", "fnptr", False, 64)
NRH.decl = "void (*%s)(int) __attribute__((noreturn))"


class Rec:
    def __init__(self, kw, name, fields):
        self.kw, self.name, self.fields = kw, name, fields   # fields: [(name, T, arraylen or None, bits or None)]

    def decl(self):
        body = " ".join("%s %s%s%s;" % (t.c, n, "[%d]" % a if a else "", " : %d" % b if b else "") for n, t, a, b in self.fields)
        return "%s %s { %s };" % (self.kw, self.name, body)


class Fn:
    def __init__(self, name, ret, params, variadic=False, attrs="", static=False):
        self.name, self.ret, self.params, self.variadic, self.attrs, self.static = name, ret, params, variadic, attrs, static
        self.cb = None
        self.arrparam_ = False
        self.tp_ptr = False


class Lib:
    def __init__(self):
        self.recs, self.enums, self.typedefs, self.fns, self.globals, self.cbs = [], [], [], [], [], []
        self.glabels = {}
        self.cb_fn_typedef = set()


def val_for(t, key, small=False):
    """deterministic test value for scalar type t as python int (floats: numerator of x/4)."""
    h = int(sha("val", key)[:16], 16)
    if t.kind == "bool":
        return h & 1
    if t.kind == "float":
        return h & 0xFFFF                     # value = n / 4.0, exactly representable (VfScalar::make masks to 16 bits)
    if t.kind in ("ptr", "fnptr"):
        return (h & 0x7FFFFFFFFFF0) | 0x10
    if t.kind == "enum":
        vals = [v for _, v in t.enum[1]]
        return vals[h % len(vals)]
    bits = t.bits
    pick = h % 6
    if t.signed:
        lo, hi = -(1 << (bits - 1)), (1 << (bits - 1)) - 1
        return [lo, hi, -1, 0, (h >> 8) % (hi + 1), -((h >> 8) % (hi + 1)) - 1][pick]
    hi = (1 << bits) - 1
    return [hi, 0, 1, hi - 1, (h >> 8) & hi, ((h >> 8) & hi) | (1 << (bits - 1))][pick]


def scalar_types(lib, rng, allow_ptr=True):
    ts = [T(c, "int", s, b) for c, s, b in INTS]
    ts += [T("_Bool", "bool", False, 8), T("float", "float", True, 32), T("double", "float", True, 64)]
    for e in lib.enums:
        ts.append(T("enum " + e[0], "enum", any(v < 0 for _, v in e[1]), 32, enum=e))
    for n, base in lib.typedefs:
        ts.append(T(n, base.kind, base.signed, base.bits, enum=base.enum))
    if allow_ptr:
        for c, cp in (("int *", False), ("const char *", True), ("void *", False), ("const void *", True), ("double *", False),
                      ("const unsigned long *", True)):
            ts.append(T(c, "ptr", False, 64, const_pointee=cp))
        for r in lib.recs:
            ts.append(T("%s %s *" % (r.kw, r.name), "ptr", False, 64))
            ts.append(T("const %s %s *" % (r.kw, r.name), "ptr", False, 64, const_pointee=True))
    return ts


def generate(rng, nfn=None, static_only=False, cxx=False):
    lib = Lib()
    for i in range(rng.randint(0, 2)):
        n = rng.randint(1, 3)
        vals, cur = [], rng.choice([0, -5, 100])
        for j in range(n):
            vals.append(("EN%d_%c" % (i, ord("A") + j), cur))
            cur += rng.randint(1, 9)
        lib.enums.append(("EN%d" % i, vals))
    base = scalar_types(lib, rng, allow_ptr=False)
    for i in range(rng.randint(0, 3)):
        b = rng.choice([t for t in base if t.kind in ("int", "float")])
        lib.typedefs.append(("td%d_t" % i, b))
    # by-value aggregates straddling the SysV classes
    shapes = ["all-int", "all-float", "mixed", "big", "array", "tiny", "union", "two-double", "float-int", "bitfield"]
    for i in range(rng.randint(1, 4)):
        sh = rng.choice(shapes)
        sc = scalar_types(lib, rng, allow_ptr=False)
        ints = [t for t in sc if t.kind == "int"]
        fl = [t for t in sc if t.kind == "float" and t.c in ("float", "double")]
        if sh == "all-int":
            f = [("a", rng.choice(ints), None, None), ("b", rng.choice(ints), None, None)]
        elif sh == "all-float":
            f = [("x", rng.choice(fl), None, None), ("y", rng.choice(fl), None, None)]
        elif sh == "two-double":
            f = [("x", T("double", "float", True, 64), None, None), ("y", T("double", "float", True, 64), None, None)]
        elif sh == "mixed":
            f = [("a", rng.choice(ints), None, None), ("x", rng.choice(fl), None, None), ("p", T("void *", "ptr", False, 64), None, None)]
        elif sh == "float-int":
            f = [("x", T("float", "float", True, 32), None, None), ("a", T("int", "int", True, 32), None, None)]
        elif sh == "big":
            f = [("a", T("long", "int", True, 64), None, None), ("b", T("double", "float", True, 64), None, None), ("c", T("long", "int", True, 64), None, None),
                 ("d", rng.choice(ints), None, None)]
        elif sh == "array":
            f = [("a", rng.choice(ints), rng.choice([2, 3, 5, 16]), None), ("t", rng.choice(ints), None, None)]
        elif sh == "tiny":
            f = [("c", T("char", "int", True, 8), None, None)]
        elif sh == "bitfield":
            f = [("a", T("unsigned int", "int", False, 32), None, 5), ("b", T("unsigned int", "int", False, 32), None, 11), ("t", T("short", "int", True, 16), None, None)]
        else:
            f = [("i", T("int", "int", True, 32), None, None), ("d", T("double", "float", True, 64), None, None)]
        lib.recs.append(Rec("union" if sh == "union" else "struct", "Ag%d" % i, f))
    types = scalar_types(lib, rng)
    byval = [T("%s %s" % (r.kw, r.name), "record", rec=r) for r in lib.recs]
    # callbacks (C hands the function pointer out)
    for i in range(rng.randint(0, 2)):
        ps = [rng.choice([t for t in types if t.kind in ("int", "float", "ptr")]) for _ in range(rng.randint(0, 3))]
        rt = rng.choice([t for t in types if t.kind in ("int", "float")] + [None])
        lib.cbs.append(("cb%d_t" % i, rt, ps))
        if rng.random() < 0.4:
            # the callback type spelled as a pointer to a typedef of FUNCTION type: `typedef R cbN_f(args); typedef cbN_f *cbN_t;`
            lib.cb_fn_typedef.add("cb%d_t" % i)
    nfn = nfn or rng.randint(3, 25)
    for i in range(nfn):
        r = rng.random()
        pool = types + byval * 2
        nparams = rng.choice([0, 1, 1, 2, 2, 3, 4, 6, 8])
        params = []
        for j in range(nparams):
            t = rng.choice(pool)
            params.append(t)
        ret = rng.choice(pool + [None, None])
        fn = Fn("fn%d" % i, ret, params)
        x = rng.random()
        if lib.cbs and x < 0.12:
            fn.cb = rng.choice(lib.cbs)
        elif x < 0.2 and not static_only:
            fn.variadic = True
            fn.params = [T("int", "int", True, 32)] + [p for p in params[:2] if p.kind != "record"]
        elif x < 0.27 and not static_only and not cxx:
            fn.attrs = ' __asm__("%s")' % rng.choice(["renamed_%d" % i, "_under_%d" % i, "fn%d$x" % i, "_fn%d" % i, "_fn%d_v2" % i, "fn%d_tail" % i])
        elif x < 0.33:
            fn.arrparam = True
            fn.arrparam_ = True
        elif x < 0.42 and not static_only and not cxx:
            # a second calling convention in the same header (extern "win64" blocks interleaved with extern "C" ones)
            fn.abi = "ms_abi"
            fn.name += "w"        # keeps it out of the reach of the --override-abi patterns (overriding a real convention is the user's lie, not bindgen's)
        fn.static = static_only or (rng.random() < 0.0)
        if not fn.variadic and not fn.arrparam_ and not cxx and len(fn.params) < 8 and rng.random() < 0.12:
            # a handler that does not return, its attribute spelled INSIDE the parameter list; the function that takes it does return.
            # First, in the middle or last: what follows the attribute in the type's spelling differs.
            fn.params.insert(rng.randint(0, len(fn.params)), NRH)
            lib.uses_nrh = True
        if fn.params and not fn.cb and not fn.variadic and rng.random() < 0.3:
            fn.unnamed = set(j for j in range(len(fn.params)) if rng.random() < 0.5)
        if not fn.static and not cxx and rng.random() < (0.5 if fn.variadic else 0.1):
            # a global pointer whose type is only spelled `__typeof__(fn) *`: its binding must carry the function's own signature
            fn.tp_ptr = True
        lib.fns.append(fn)
    # the two features together on a function with its own convention: the pointer's nested function type must keep ITS convention
    # (repaired defect b8623192: it inherited the outer one)
    for fn in lib.fns:
        if getattr(fn, "abi", None) == "ms_abi" and not fn.variadic and not fn.arrparam_ and not fn.static and len(fn.params) < 8 and rng.random() < 0.6:
            fn.tp_ptr = True
            if not any(p_ is NRH for p_ in fn.params):
                fn.params.insert(rng.randint(0, len(fn.params)), NRH)
                if getattr(fn, "unnamed", None):
                    fn.unnamed = set()
                lib.uses_nrh = True
            break
    if not static_only and not cxx and rng.random() < 0.3:
        # a function that does not return: the Rust driver calls it last; the callee prints what arrived and leaves through _exit(0)
        ps_ = [rng.choice([t_ for t_ in types if t_.kind in ("int", "float", "bool", "ptr")]) for _ in range(rng.randint(0, 4))]
        nr = Fn("fn_noret", None, ps_)
        nr.noreturn = True
        nr.spelling = rng.choice(["_Noreturn ", "__attribute__((noreturn)) "])
        lib.fns.append(nr)
    if not static_only:
        for i in range(rng.randint(0, 6)):
            t = rng.choice(types + byval)
            lib.globals.append(("g%d" % i, t, rng.random() < 0.4))
            if not cxx and rng.random() < 0.2:
                lib.glabels["g%d" % i] = rng.choice(["_g%d" % i, "_g%d_v2" % i, "g%d_tail" % i, "gvar_%d" % i])
    return lib


def global_decl(n, t, const):
    if not const:
        return "%s %s" % (t.c, n)
    if t.kind == "ptr":
        return "%s const %s" % (t.c, n)       # the pointer itself is const, whatever the pointee is
    return "const %s %s" % (t.c, n)


def cb_sig(cb, name="", ptr=True):
    n, rt, ps = cb
    return "%s (*%s)(%s)" % (rt.c if rt else "void", name, ", ".join(p.c for p in ps) or "void")


def fn_proto(fn, lib, decl_only=False):
    """decl_only: the separate prototype, in which the parameters listed in fn.unnamed carry no name"""
    ps = []
    for j, p in enumerate(fn.params):
        nm = "" if (decl_only and j in getattr(fn, "unnamed", ())) else "a%d" % j
        if getattr(p, "decl", None):
            ps.append(p.decl % nm)
        elif getattr(fn, "arrparam", False) and j == 0 and p.kind in ("int", "float"):
            ps.append("%s %s[4]" % (p.c, nm))
        else:
            ps.append(("%s %s" % (p.c, nm)).rstrip())
    if fn.cb:
        ps.append("%s cbp" % fn.cb[0])
    if fn.variadic:
        ps.append("...")
    return "%s%s%s %s(%s)" % (getattr(fn, "spelling", "") if getattr(fn, "noreturn", False) else "",
                              "__attribute__((ms_abi)) " if getattr(fn, "abi", None) == "ms_abi" else "", fn.ret.c if fn.ret else "void", fn.name,
                            ", ".join(ps) or "void")


def header(lib, static_bodies=False, cxx=False):
    out = []
    for n, vals in lib.enums:
        out.append("enum %s { %s };" % (n, ", ".join("%s = %d" % v for v in vals)))
    for n, b in lib.typedefs:
        out.append("typedef %s %s;" % (b.c, n))
    for r in lib.recs:
        out.append(r.decl())
    if getattr(lib, "uses_nrh", False):
        out.append("typedef void (*vf_nrh_t)(int) __attribute__((noreturn));")
    for cb in lib.cbs:
        if cb[0] in lib.cb_fn_typedef:
            fname_ = cb[0][:-2] + "_f"
            out.append("typedef %s %s(%s);" % (cb[1].c if cb[1] else "void", fname_, ", ".join(p_.c for p_ in cb[2]) or "void"))
            out.append("typedef %s *%s;" % (fname_, cb[0]))
        else:
            out.append("typedef %s;" % cb_sig(cb, cb[0]))
        out.append("%s get_%s(void);" % (cb[0], cb[0]))
    for fn in lib.fns:
        if fn.static:
            inl = "inline " if fn.name[-1] in "02468" else ""
            if getattr(fn, "unnamed", None):
                # a prototype with unnamed parameters (some after named ones) in front of the definition
                out.append("static %s%s;" % (inl, fn_proto(fn, lib, decl_only=True)))
            out.append("static %s%s %s" % (inl, fn_proto(fn, lib), static_body(fn, lib)))
        else:
            out.append("%s%s;" % (fn_proto(fn, lib, decl_only=True), fn.attrs))
            if fn.tp_ptr:
                out.append("extern __typeof__(%s) *%s_tp;" % (fn.name, fn.name))
    for n, t, const in lib.globals:
        out.append("extern %s%s;" % (global_decl(n, t, const), (' __asm__("%s")' % lib.glabels[n]) if n in lib.glabels else ""))
    text = "\n".join(out) + "\n"
    if cxx:
        text = text.replace("_Bool", "bool")
    return text


def leaf_print(t, expr, label):
    """C statements printing value(s) of expr of type t as lines `label value`."""
    if t.kind == "record":
        s = ""
        for n, ft, arr, bits in t.rec.fields:
            if t.rec.kw == "union" and n != t.rec.fields[0][0]:
                continue
            if arr:
                for k in range(arr):
                    s += leaf_print(ft, "%s.%s[%d]" % (expr, n, k), "%s.%s[%d]" % (label, n, k))
            else:
                s += leaf_print(ft, "%s.%s" % (expr, n), "%s.%s" % (label, n))
        return s
    if t.kind == "float":
        if t.bits == 32:
            return 'printf("%s f%%08x\\n", vf_fbitsf(%s));\n' % (label, expr)
        return 'printf("%s d%%016llx\\n", vf_fbits(%s));\n' % (label, expr)
    if t.kind in ("ptr", "fnptr"):
        return 'printf("%s p%%llx\\n", (unsigned long long)(uintptr_t)(%s));\n' % (label, expr)
    if t.kind == "bool":
        return 'printf("%s %%d\\n", (int)(%s));\n' % (label, expr)
    if t.signed:
        return 'printf("%s %%lld\\n", (long long)(%s));\n' % (label, expr)
    return 'printf("%s %%llu\\n", (unsigned long long)(%s));\n' % (label, expr)


def c_value(t, v):
    if t.kind == "float":
        return "(%s)(%d / 4.0)" % (t.c, v)
    if t.kind in ("ptr", "fnptr"):
        return "(%s)(uintptr_t)0x%xULL" % (t.c, v)
    if t.kind == "bool":
        return "(_Bool)%d" % v
    if t.kind == "enum":
        return "(%s)(%d)" % (t.c, v)
    if v < 0:
        return "(%s)(%dLL)" % (t.c, v) if v > -(1 << 63) else "(%s)(-9223372036854775807LL - 1)" % t.c
    return "(%s)%dULL" % (t.c, v)


def c_assign(t, lhs, key):
    """C statements assigning deterministic values to lhs of type t."""
    if t.kind == "record":
        s = ""
        for n, ft, arr, bits in t.rec.fields:
            if t.rec.kw == "union" and n != t.rec.fields[0][0]:
                continue
            if arr:
                for k in range(arr):
                    s += c_assign(ft, "%s.%s[%d]" % (lhs, n, k), "%s.%s[%d]" % (key, n, k))
            else:
                s += c_assign(ft, "%s.%s" % (lhs, n), "%s.%s" % (key, n), )
        return s
    v = val_for(t, key)
    if getattr(t, "_bits_limit", None):
        pass
    return "%s = %s;\n" % (lhs, c_value(t, v))


def static_body(fn, lib):
    return "{ %s }" % callee_body(fn, lib, inline=True).replace("\n", " ")


def callee_body(fn, lib, inline=False):
    s = 'printf("CALL %s\\n");\n' % fn.name
    for j, p in enumerate(fn.params):
        if getattr(fn, "arrparam", False) and j == 0 and p.kind in ("int", "float"):
            s += 'printf("%s.a%d p%%llx\\n", (unsigned long long)(uintptr_t)a%d);\n' % (fn.name, j, j)
        else:
            s += leaf_print(p, "a%d" % j, "%s.a%d" % (fn.name, j))
    if fn.cb:
        n, rt, ps = fn.cb
        args = ", ".join(c_value(p, val_for(p, "%s.c%d" % (n, k))) for k, p in enumerate(ps))
        if rt:
            s += "{ %s r = cbp(%s); %s }\n" % (rt.c, args, leaf_print(rt, "r", fn.name + ".cbret"))
        else:
            s += "cbp(%s);\n" % args
    if fn.variadic:
        s += "{ __builtin_va_list ap; __builtin_va_start(ap, a%d); int vi = __builtin_va_arg(ap, int); double vd = __builtin_va_arg(ap, double); " \
             "long long vl = __builtin_va_arg(ap, long long); __builtin_va_end(ap); printf(\"%s.va %%d d%%016llx %%lld\\n\", vi, vf_fbits(vd), vl); }\n" % (
                 len(fn.params) - 1, fn.name)
    s += "fflush(stdout);\n"
    if getattr(fn, "noreturn", False):
        s += "exit(0);\n"
    if fn.ret:
        s += "{ %s r; memset(&r, 0, sizeof r);\n%s return r; }\n" % (fn.ret.c, c_assign(fn.ret, "r", fn.name + ".ret"))
    return s


def rec_keys(lib):
    """record name -> list of (key, label) for every by-value use (params, returns, globals)"""
    tab = {r.name: [] for r in lib.recs}
    for fn in lib.fns:
        for j, p in enumerate(fn.params):
            if p.kind == "record":
                tab[p.rec.name].append("%s.a%d" % (fn.name, j))
        if fn.ret is not None and fn.ret.kind == "record":
            tab[fn.ret.rec.name].append(fn.name + ".ret")
    for n, t, const in lib.globals:
        if t.kind == "record":
            tab[t.rec.name].append("gw." + n)
            tab[t.rec.name].append("GR." + n)
    return tab


def impl_c(lib, header_name="h.h"):
    out = ['#include "%s"' % header_name, probes.C_PRELUDE]
    tab = rec_keys(lib)
    for r in lib.recs:
        t = T("%s %s" % (r.kw, r.name), "record", rec=r)
        fill = "void vf_fill_%s(%s %s *p, int k) {\n memset(p, 0, sizeof *p);\n switch (k) {\n" % (r.name, r.kw, r.name)
        show = "void vf_show_%s(const %s %s *p, int k) {\n switch (k) {\n" % (r.name, r.kw, r.name)
        for k, key in enumerate(tab[r.name]):
            fill += " case %d: %s break;\n" % (k, c_assign(t, "(*p)", key).replace("\n", " "))
            show += " case %d: %s break;\n" % (k, leaf_print(t, "(*p)", key).replace("\n", " "))
        fill += " }\n}\n"
        show += " }\n fflush(stdout);\n}\n"
        out.append(fill)
        out.append(show)
    for cb in lib.cbs:
        n, rt, ps = cb
        body = 'printf("CB %s\\n");\n' % n
        for k, p in enumerate(ps):
            body += leaf_print(p, "c%d" % k, "%s.c%d" % (n, k))
        body += "fflush(stdout);\n"
        if rt:
            body += "return %s;\n" % c_value(rt, val_for(rt, n + ".ret"))
        out.append("static %s impl_%s(%s) {\n%s}" % (rt.c if rt else "void", n, ", ".join("%s c%d" % (p.c, k) for k, p in enumerate(ps)) or "void", body))
        out.append("%s get_%s(void) { return impl_%s; }" % (n, n, n))
    for fn in lib.fns:
        if fn.static:
            # direct-call trampolines so that C can call the static function itself
            args = ", ".join("a%d" % j for j in range(len(fn.params))) + (", cbp" if fn.cb else "")
            out.append("%s { %s%s(%s); }" % (fn_proto(fn, lib).replace(fn.name + "(", "direct_" + fn.name + "("),
                                               "return " if fn.ret else "", fn.name, args.lstrip(", ")))
            continue
        out.append("%s {\n%s}" % (fn_proto(fn, lib), callee_body(fn, lib)))
        if fn.tp_ptr:
            out.append("__typeof__(%s) *%s_tp = %s;" % (fn.name, fn.name, fn.name))
    for n, t, const in lib.globals:
        if t.kind == "record":
            init = "{0}"
        else:
            init = c_value(t, val_for(t, "global." + n))
        out.append("%s = %s;" % (global_decl(n, t, const), init))
    sig = "void vf_sigs(void) {\n"
    for fn in lib.fns:
        if fn.variadic:
            continue
        parts = []
        fmt_args = []
        def desc(t, j=None, arr=False):
            if t is None:
                return "void", []
            if arr:
                return "ptr/0/%zu", ["sizeof(void *)"]
            if t.kind == "record":
                return "record/%zu", ["sizeof(%s)" % t.c]
            if t.kind == "ptr":
                return ("cptr" if t.const_pointee else "ptr") + "/0/%zu", ["sizeof(%s)" % t.c]
            if t.kind == "enum":
                return "enum/%d/%zu", ["(int)((%s)-1 < 0)" % t.c, "sizeof(%s)" % t.c]
            if t.kind == "bool":
                return "bool/0/%zu", ["sizeof(%s)" % t.c]
            if t.kind == "fnptr":
                return "fnptr/0/%zu", ["sizeof(%s)" % t.c]
            if t.kind == "float":
                return "float/1/%zu", ["sizeof(%s)" % t.c]
            return "int/%d/%%zu" % (1 if t.signed else 0), ["sizeof(%s)" % t.c]
        f0, a0 = desc(fn.ret)
        fm = [f0]
        aa = list(a0)
        ps = []
        for j, p in enumerate(fn.params):
            f1, a1 = desc(p, j, arr=(getattr(fn, "arrparam", False) and j == 0 and p.kind in ("int", "float")))
            ps.append(f1)
            aa += a1
        if fn.cb:
            ps.append("fnptr/0/%zu")
            aa.append("sizeof(void *)")
        sig += 'printf("CSIG %s %s <- %s\\n"%s);\n' % (fn.name, f0, " ".join(ps), "".join(", " + a for a in aa))
    sig += "fflush(stdout);\n}\n"
    out.append(sig)
    dump = "void vf_dump_globals(void) {\n"
    for n, t, const in lib.globals:
        dump += leaf_print(t, n, "G." + n)
    dump += "fflush(stdout);\n}\n"
    out.append(dump)
    return "\n".join(out) + "\n"


# ------------------------------------------------------------------------------------------------
# Rust caller
# ------------------------------------------------------------------------------------------------
RS_EXTRA = r'''
pub trait VfDesc { fn d() -> String; }
impl<T: VfScalar> VfDesc for T { fn d() -> String { format!("{}/{}/{}", T::KIND, if T::SIGNED { 1 } else { 0 }, std::mem::size_of::<T>()) } }
impl VfDesc for () { fn d() -> String { "void".into() } }
impl VfDesc for ! { fn d() -> String { "never".into() } }
macro_rules! vf_sig { ($name:ident; $($a:ident),*) => {
    fn $name<R: VfDesc, $($a: VfDesc),*>(_f: unsafe extern "C" fn($($a),*) -> R) -> String {
        let v: Vec<String> = vec![$($a::d()),*]; format!("{} <- {}", R::d(), v.join(" "))
    } } }
'''


def rust_value_expr(t, v):
    return "vf_mk(%d)" % v


def emit_rs(lib, view, bindings_path, link_names, call_static=False):
    """Rust program: prints declared signature descriptors, calls every function with fixed values, prints returns,
    reads and writes globals."""
    out = ["#![feature(never_type)]" if False else "", probes.RS_PRELUDE, 'include!("%s");' % bindings_path]
    # VfScalar impls for generated enums / newtypes (as in probes.emit_rs)
    for name, it in sorted(view.enums.items()):
        repr_ = [r for r in it.get("repr", []) if re.fullmatch(r"[iu](8|16|32|64|128|size)", r)]
        if repr_:
            r = repr_[0]
            out.append("impl VfScalar for %(n)s { const SIGNED: bool = <%(r)s as VfScalar>::SIGNED; const KIND: &'static str = \"enum\"; const ELEM_SIZE: usize = std::mem::size_of::<%(r)s>();\n"
                       " fn show(&self, out: &mut String) { let v: %(r)s = unsafe { std::mem::transmute_copy(self) }; v.show(out); }\n"
                       " fn make(v: i128, step: bool, idx: &mut u64) -> Self { let x: %(r)s = <%(r)s as VfScalar>::make(v, false, idx); unsafe { std::mem::transmute_copy(&x) } } }" % {"n": name, "r": r})
    for name, fty in sorted(view.newtypes.items()):
        if name.startswith("__"):
            continue
        out.append("impl VfScalar for %(n)s { const SIGNED: bool = <%(t)s as VfScalar>::SIGNED; const KIND: &'static str = <%(t)s as VfScalar>::KIND; const ELEM_SIZE: usize = std::mem::size_of::<%(t)s>();\n"
                   " fn show(&self, out: &mut String) { self.0.show(out); }\n fn make(v: i128, step: bool, idx: &mut u64) -> Self { %(n)s(<%(t)s as VfScalar>::make(v, step, idx)) } }" % {"n": name, "t": fty})
    out.append("pub trait VfDesc { fn d() -> String; }")
    out.append("impl<T: VfScalar> VfDesc for T { fn d() -> String { format!(\"{}/{}/{}\", T::KIND, if T::SIGNED { 1 } else { 0 }, std::mem::size_of::<T>()) } }")
    out.append("impl VfDesc for () { fn d() -> String { \"void\".into() } }")
    for r in lib.recs:
        if r.name in view.types:
            out.append("impl VfDesc for %s { fn d() -> String { format!(\"record/{}\", std::mem::size_of::<%s>()) } }" % (r.name, r.name))
    fabi = {}
    for it in view.inv["items"]:
        if it["kind"] == "extern_block":
            for m in it["members"]:
                if m["kind"] == "foreign_fn":
                    fabi[m["name"]] = it["abi"]
    abis = sorted(set(fabi.values()) | {"C"})
    for ai, abi in enumerate(abis):
        for ar in range(0, 10):
            gens = ", ".join("A%d: VfDesc" % k for k in range(ar))
            args = ", ".join("A%d" % k for k in range(ar))
            descs = ", ".join("A%d::d()" % k for k in range(ar))
            out.append("fn vf_sig%s%d<R: VfDesc%s%s>(_f: unsafe extern \"%s\" fn(%s) -> R) -> String { let v: Vec<String> = vec![%s]; format!(\"{} <- {}\", R::d(), v.join(\" \")) }" % (
                "" if abi == "C" else "_x%d_" % ai, ar, ", " if gens else "", gens, abi, args, descs))
    tab = rec_keys(lib)
    ext = ['extern "C" { fn vf_dump_globals(); fn vf_sigs();']
    for r in lib.recs:
        if r.name in view.types:
            ext.append("    fn vf_fill_%s(p: *mut %s, k: i32); fn vf_show_%s(p: *const %s, k: i32);" % (r.name, r.name, r.name, r.name))
    ext.append("}")
    out.append("\n".join(ext))
    main = ["fn main() { unsafe {", "    vf_sigs();"]
    info = {"called": 0, "skipped": []}
    fnames = set()
    for it in view.inv["items"]:
        if it["kind"] == "extern_block":
            for m in it["members"]:
                if m["kind"] == "foreign_fn":
                    fnames.add(m["name"])
        elif it["kind"] == "fn":
            fnames.add(it["name"])
    last_call = []
    statics_early = set(m["name"] for it in view.inv["items"] if it["kind"] == "extern_block" for m in it["members"] if m["kind"] == "foreign_static")
    out.append("fn vf_same<T: Copy>(_a: T, _b: T) {}")
    for fn in lib.fns:
        if fn.name not in fnames:
            info["skipped"].append((fn.name, "no binding"))
            continue
        if getattr(fn, "noreturn", False):
            # called after everything else (it never comes back); the declared return type is checked from the inventory
            last_call.append('    println!("NORETURN-CALL %s"); %s(%s);' % (fn.name, fn.name, ", ".join("vf_mk(%d)" % val_for(p, "%s.a%d" % (fn.name, j)) for j, p in enumerate(fn.params))))
            last_call.append('    println!("NORETURN-RETURNED %s");' % fn.name)
            info["called"] += 1
            continue
        ar = len(fn.params) + (1 if fn.cb else 0)
        if not fn.variadic:
            a_ = fabi.get(fn.name, "C")
            main.append('    println!("SIG %s {}", vf_sig%s%d(%s));' % (fn.name, "" if a_ == "C" else "_x%d_" % abis.index(a_), ar, fn.name))
        main.append('    println!("ABI %s %s");' % (fn.name, fabi.get(fn.name, "?")))
        args = []
        pre = []
        for j, p in enumerate(fn.params):
            key = "%s.a%d" % (fn.name, j)
            if p.kind == "record":
                var = "s_%s_%d" % (fn.name, j)
                pre.append("    let mut %s: %s = std::mem::zeroed();" % (var, p.rec.name))
                pre.append("    vf_fill_%s(&mut %s, %d);" % (p.rec.name, var, tab[p.rec.name].index(key)))
                args.append(var)
            elif getattr(fn, "arrparam", False) and j == 0 and p.kind in ("int", "float"):
                args.append("vf_mk(%d)" % val_for(T("p", "ptr", False, 64), key))
            else:
                args.append("vf_mk(%d)" % val_for(p, key))
        if fn.cb:
            args.append("get_%s()" % fn.cb[0])
        if fn.variadic:
            args += ["7i32", "2.5f64", "-9i64"]
        main += pre
        if fn.tp_ptr and (fn.name + "_tp") in statics_early and fabi.get(fn.name) == ("win64" if getattr(fn, "abi", None) == "ms_abi" else "C"):
            # (an --override-abi pattern naming the function re-declares the function, not the pointer: compared only without one)
            # same type as the function itself (rustc decides), and a call through it arrives like a direct call
            main.append('    vf_same(%s_tp.expect("null fn pointer"), %s as _);' % (fn.name, fn.name))
            info["typeof_pointers"] = info.get("typeof_pointers", 0) + 1
        call = "%s(%s)" % (fn.name, ", ".join(args))
        if fn.ret is None:
            main.append("    %s;" % call)
        elif fn.ret.kind == "record":
            main.append("    { let r = %s; vf_show_%s(&r, %d); }" % (call, fn.ret.rec.name, tab[fn.ret.rec.name].index(fn.name + ".ret")))
        else:
            main.append('    { let r = %s; println!("%s.ret {}", vf_showv(r)); }' % (call, fn.name))
        info["called"] += 1
    # globals: read, then write the mutable ones and let C dump
    statics = {}
    for it in view.inv["items"]:
        if it["kind"] == "extern_block":
            for m in it["members"]:
                if m["kind"] == "foreign_static":
                    statics[m["name"]] = m
    for n, t, const in lib.globals:
        if n not in statics:
            info["skipped"].append((n, "no binding"))
            continue
        main.append('    println!("GDECL %s mutable={}", %s);' % (n, "true" if statics[n]["mutable"] else "false"))
        if t.kind == "record":
            main.append("    vf_show_%s(addr_of!(%s), %d);" % (t.rec.name, n, tab[t.rec.name].index("GR." + n)))
        else:
            main.append('    println!("GR.%s {}", vf_show(addr_of!(%s)));' % (n, n))
        if statics[n]["mutable"] and not const:
            if t.kind == "record":
                main.append("    vf_fill_%s(addr_of_mut!(%s), %d);" % (t.rec.name, n, tab[t.rec.name].index("gw." + n)))
            else:
                main.append("    vf_store(addr_of_mut!(%s), %d, false);" % (n, val_for(t, "gw." + n)))
    main.append("    vf_dump_globals();")
    main += last_call
    main.append("} }")
    return "\n".join(out + main) + "\n", info


def rust_fill(t, var, key):
    s = []
    for n, ft, arr, bits in t.rec.fields:
        if t.rec.kw == "union" and n != t.rec.fields[0][0]:
            continue
        if bits:
            s.append("    %s.set_%s(vf_mk(%d));" % (var, n, val_for(ft, "%s.%s" % (key, n)) & ((1 << bits) - 1)))
        elif arr:
            for k in range(arr):
                s.append("    vf_store(addr_of_mut!(%s.%s[%d]), %d, false);" % (var, n, k, val_for(ft, "%s.%s[%d]" % (key, n, k))))
        else:
            s.append("    vf_store(addr_of_mut!(%s.%s), %d, false);" % (var, n, val_for(ft, "%s.%s" % (key, n))))
    return s


def rust_show(t, var, label):
    s = []
    for n, ft, arr, bits in t.rec.fields:
        if t.rec.kw == "union" and n != t.rec.fields[0][0]:
            continue
        if bits:
            s.append('    println!("%s.%s {}", vf_showv(%s.%s()));' % (label, n, var, n))
        elif arr:
            for k in range(arr):
                s.append('    println!("%s.%s[%d] {}", vf_show(addr_of!(%s.%s[%d])));' % (label, n, k, var, n, k))
        else:
            s.append('    println!("%s.%s {}", vf_show(addr_of!(%s.%s)));' % (label, n, var, n))
    return s


def fmt_value(t, v):
    """how both sides print value v of scalar type t"""
    if t.kind == "float":
        import struct
        x = v / 4.0
        if t.bits == 32:
            return "f%08x" % struct.unpack("<I", struct.pack("<f", x))[0]
        return "d%016x" % struct.unpack("<Q", struct.pack("<d", x))[0]
    if t.kind in ("ptr", "fnptr"):
        return "p%x" % v
    return str(v)


def expected_lines(lib):
    """label -> expected printed value, for everything the orchestrator fixed."""
    exp = {}

    def rec_vals(t, key, label):
        for n, ft, arr, bits in t.rec.fields:
            if t.rec.kw == "union" and n != t.rec.fields[0][0]:
                continue
            if arr:
                for k in range(arr):
                    exp["%s.%s[%d]" % (label, n, k)] = fmt_value(ft, val_for(ft, "%s.%s[%d]" % (key, n, k)))
            else:
                v = val_for(ft, "%s.%s" % (key, n))
                if bits:
                    v &= (1 << bits) - 1
                exp["%s.%s" % (label, n)] = fmt_value(ft, v)
    for fn in lib.fns:
        for j, p in enumerate(fn.params):
            key = "%s.a%d" % (fn.name, j)
            if p.kind == "record":
                rec_vals(p, key, key)
            elif getattr(fn, "arrparam", False) and j == 0 and p.kind in ("int", "float"):
                exp[key] = "p%x" % val_for(T("p", "ptr", False, 64), key)
            else:
                exp[key] = fmt_value(p, val_for(p, key))
        if fn.ret is not None:
            if fn.ret.kind == "record":
                rec_vals(fn.ret, fn.name + ".ret", fn.name + ".ret")
            else:
                exp[fn.name + ".ret"] = fmt_value(fn.ret, val_for(fn.ret, fn.name + ".ret"))
        if fn.variadic:
            import struct
            exp[fn.name + ".va"] = "7 d%016x -9" % struct.unpack("<Q", struct.pack("<d", 2.5))[0]
        if fn.cb:
            n, rt, ps = fn.cb
            if rt:
                exp[fn.name + ".cbret"] = fmt_value(rt, val_for(rt, n + ".ret"))
    return exp
