#!/usr/bin/env python3
"""Run checks against a seeded change:  tools_seeded.py <seeded-id> [check ids...] [--tier quick]
Applies seeded/<id>/patch.diff to /repo, runs the checks, restores /repo (git checkout -- .), prints a summary line per check
and stores it in seeded/<id>/results.json."""
import json, os, subprocess, sys, time
V = os.path.dirname(os.path.abspath(__file__))
sid = sys.argv[1]
args = [a for a in sys.argv[2:] if not a.startswith("--")]
tier = "quick"
if "--tier" in sys.argv:
    tier = sys.argv[sys.argv.index("--tier") + 1]
    args = [a for a in args if a != tier]
d = os.path.join(V, "seeded", sid)
meta = json.load(open(os.path.join(d, "meta.json")))
checks = args or [meta["property"]]
st = subprocess.run(["git", "-C", "/repo", "status", "--porcelain"], capture_output=True, text=True).stdout.strip()
if st:
    sys.exit("refusing: /repo has uncommitted changes:\n" + st)
r = subprocess.run(["git", "-C", "/repo", "apply", os.path.join(d, "patch.diff")], capture_output=True, text=True)
if r.returncode:
    sys.exit("patch does not apply: " + r.stderr)
res = {}
try:
    for c in checks:
        t0 = time.time()
        p = subprocess.run([os.path.join(V, "vf"), "check", c, "--tier", tier], capture_output=True, text=True, cwd=V)
        viol = [l for l in p.stdout.splitlines() if l.startswith("VIOLATION")]
        what = [l.strip() for l in p.stdout.splitlines() if l.strip().startswith("what:")]
        res[c] = {"exit": p.returncode, "violations": len(viol), "first": (what[0][:300] if what else ""), "wall_s": round(time.time() - t0, 1),
                  "summary": [l for l in p.stdout.splitlines() if l.startswith(c + " tier=")][-1:] }
        print("%s on seeded/%s: exit %d, %d VIOLATION lines; %s" % (c, sid, p.returncode, len(viol), res[c]["first"][:200]))
finally:
    subprocess.run(["git", "-C", "/repo", "checkout", "--", "."], check=True)
    subprocess.run(["git", "-C", "/repo", "clean", "-fdq", "--", "bindgen", "bindgen-cli"], check=False)
old = {}
rp = os.path.join(d, "results.json")
if os.path.exists(rp):
    old = json.load(open(rp))
old.update({"%s/%s" % (c, tier): v for c, v in res.items()})
json.dump(old, open(rp, "w"), indent=1)
