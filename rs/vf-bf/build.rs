// Generates the const-generic instantiation table for the `*_const` accessors.
use std::fmt::Write;
fn main() {
    let out = std::path::PathBuf::from(std::env::var("OUT_DIR").unwrap()).join("consts.rs");
    let mut s = String::new();
    // (N, offset, width) triples for the const-generic entry points: every bit
    // shift 0..8 and every width 1..=64, at the first and at the last byte
    // position that fits, for a set of storage sizes around the usize/u64 path
    // boundary.
    let sizes: [usize; 7] = [1, 2, 4, 8, 9, 12, 16];
    let mut n_cases = 0usize;
    let mut parts = 0usize;
    for &n in &sizes {
        for shift in 0..8usize {
            writeln!(s, "fn const_table_{parts}(v: &mut Vec<ConstCase>) {{").unwrap();
            parts += 1;
            for width in 1..=64usize {
                let bytes_needed = (width + shift + 7) / 8;
                if bytes_needed > n { continue; }
                let mut starts = vec![0usize, n - bytes_needed];
                starts.dedup();
                for &sb in &starts {
                    let off = sb * 8 + shift;
                    if off + width > n * 8 { continue; }
                    writeln!(s, "v.push(ConstCase {{ n: {n}, off: {off}, width: {width}, \
                        get: |st| {{ let u = U::<[u8; {n}]>::new(st[..{n}].try_into().unwrap()); u.get_const::<{off}, {width}>() }}, \
                        set: |st, val| {{ let mut u = U::<[u8; {n}]>::new(st[..{n}].try_into().unwrap()); u.set_const::<{off}, {width}>(val); st[..{n}].copy_from_slice(&as_bytes(&u)); }}, \
                        raw_get: |st| {{ let u = U::<[u8; {n}]>::new(st[..{n}].try_into().unwrap()); unsafe {{ U::<[u8; {n}]>::raw_get_const::<{off}, {width}>(&u) }} }}, \
                        raw_set: |st, val| {{ let mut u = U::<[u8; {n}]>::new(st[..{n}].try_into().unwrap()); unsafe {{ U::<[u8; {n}]>::raw_set_const::<{off}, {width}>(&mut u, val) }}; st[..{n}].copy_from_slice(&as_bytes(&u)); }} }});").unwrap();
                    n_cases += 1;
                }
            }
            writeln!(s, "}}").unwrap();
        }
    }
    writeln!(s, "pub fn const_table() -> Vec<ConstCase> {{ let mut v: Vec<ConstCase> = Vec::new();").unwrap();
    for k in 0..parts { writeln!(s, "const_table_{k}(&mut v);").unwrap(); }
    writeln!(s, "v }}\npub const N_CONST_CASES: usize = {n_cases};").unwrap();
    std::fs::write(out, s).unwrap();
    println!("cargo:rerun-if-changed=build.rs");
}
