//! C03(a): sweep of bindgen's embedded `__BindgenBitfieldUnit` against a
//! reference bit-vector model.  The unit's source is included verbatim from
//! the repository's working tree.
#![allow(dead_code, clippy::all)]

mod unit {
    include!("/repo/bindgen/codegen/bitfield_unit.rs");
}
use unit::__BindgenBitfieldUnit as U;

use std::panic::{catch_unwind, AssertUnwindSafe};

fn as_bytes<const N: usize>(u: &U<[u8; N]>) -> [u8; N] {
    // repr(C) struct with a single [u8; N] field.
    unsafe { *(u as *const U<[u8; N]> as *const [u8; N]) }
}

pub struct ConstCase {
    n: usize,
    off: usize,
    width: usize,
    get: fn(&[u8]) -> u64,
    set: fn(&mut [u8], u64),
    raw_get: fn(&[u8]) -> u64,
    raw_set: fn(&mut [u8], u64),
}
include!(concat!(env!("OUT_DIR"), "/consts.rs"));

// ---------------- reference model ----------------
fn model_get(st: &[u8], off: usize, width: usize) -> u64 {
    let mut v = 0u64;
    for i in 0..width {
        let b = off + i;
        if (st[b / 8] >> (b % 8)) & 1 == 1 {
            v |= 1u64 << i;
        }
    }
    v
}
fn model_set(st: &mut [u8], off: usize, width: usize, val: u64) {
    for i in 0..width {
        let b = off + i;
        let bit = (val >> i) & 1 == 1;
        if bit {
            st[b / 8] |= 1 << (b % 8);
        } else {
            st[b / 8] &= !(1 << (b % 8));
        }
    }
}

// ---------------- dynamic entry points ----------------
macro_rules! dyn_ops {
    ($($n:literal),*) => {
        fn dyn_get(st: &[u8], off: usize, w: u8) -> u64 {
            match st.len() { $($n => { let u = U::<[u8; $n]>::new(st.try_into().unwrap()); u.get(off, w) })* _ => unreachable!() }
        }
        fn dyn_raw_get(st: &[u8], off: usize, w: u8) -> u64 {
            match st.len() { $($n => { let u = U::<[u8; $n]>::new(st.try_into().unwrap()); unsafe { U::<[u8; $n]>::raw_get(&u, off, w) } })* _ => unreachable!() }
        }
        fn dyn_set(st: &mut [u8], off: usize, w: u8, v: u64) {
            match st.len() { $($n => { let mut u = U::<[u8; $n]>::new((&*st).try_into().unwrap()); u.set(off, w, v); st.copy_from_slice(&as_bytes(&u)); })* _ => unreachable!() }
        }
        fn dyn_raw_set(st: &mut [u8], off: usize, w: u8, v: u64) {
            match st.len() { $($n => { let mut u = U::<[u8; $n]>::new((&*st).try_into().unwrap()); unsafe { U::<[u8; $n]>::raw_set(&mut u, off, w, v) }; st.copy_from_slice(&as_bytes(&u)); })* _ => unreachable!() }
        }
        fn dyn_bits(st: &mut [u8], idx: usize, val: bool) -> (bool, bool) {
            // set_bit/get_bit and raw forms: returns (get_bit after set, raw_get_bit after raw_set)
            match st.len() { $($n => {
                let mut u = U::<[u8; $n]>::new((&*st).try_into().unwrap());
                u.set_bit(idx, val);
                let a = u.get_bit(idx);
                let mut u2 = U::<[u8; $n]>::new((&*st).try_into().unwrap());
                unsafe { U::<[u8; $n]>::raw_set_bit(&mut u2, idx, val) };
                let b = unsafe { U::<[u8; $n]>::raw_get_bit(&u2, idx) };
                let ba = as_bytes(&u); let bb = as_bytes(&u2);
                st.copy_from_slice(&ba);
                (a, b && ba == bb || (!b && ba == bb && !a))
            })* _ => unreachable!() }
        }
    };
}
dyn_ops!(1, 2, 3, 4, 5, 6, 7, 8, 9, 10, 11, 12, 13, 14, 15, 16);

struct Rng(u64);
impl Rng {
    fn next(&mut self) -> u64 {
        let mut x = self.0;
        x ^= x << 13;
        x ^= x >> 7;
        x ^= x << 17;
        self.0 = x;
        x
    }
}

fn hex(b: &[u8]) -> String {
    b.iter().map(|x| format!("{x:02x}")).collect::<Vec<_>>().join("")
}

struct Stats {
    triples: u64,
    ops: u64,
    stores_checked: u64,
    loads_checked: u64,
    untouched_bits_checked: u64,
    violations: u64,
    over64_violations: u64,
    panics: u64,
    printed: u64,
}

fn report(st: &mut Stats, entry: &str, n: usize, off: usize, w: usize, val: u64, before: &[u8], got: &str, want: &str) {
    st.violations += 1;
    let over = w + off % 8 > 64;
    if over {
        st.over64_violations += 1;
    }
    if st.printed < 40 || (!over && st.printed < 400) {
        st.printed += 1;
        println!(
            "MISMATCH entry={entry} n={n} off={off} width={w} span_over_64={over} val={val:#x} before={} got={got} want={want}",
            hex(before)
        );
    }
}

fn values(w: usize, rng: &mut Rng) -> Vec<u64> {
    let mask = if w == 64 { !0u64 } else { (1u64 << w) - 1 };
    let mut v = vec![0, 1, !0u64, 1u64 << (w - 1), 0xAAAA_AAAA_AAAA_AAAA, 0x5555_5555_5555_5555, mask, mask >> 1];
    for _ in 0..3 {
        v.push(rng.next());
    }
    v
}

fn check_triple(stats: &mut Stats, rng: &mut Rng, n: usize, off: usize, w: usize, consts: Option<&ConstCase>, nvals: usize) {
    stats.triples += 1;
    let mut pats: Vec<Vec<u8>> = vec![vec![0u8; n], vec![0xFFu8; n]];
    pats.push((0..n).map(|_| rng.next() as u8).collect());
    let vals = values(w, rng);
    for pat in &pats {
        // loads
        let want = model_get(pat, off, w);
        let mut loads: Vec<(&str, Box<dyn Fn() -> u64 + '_>)> = vec![
            ("get", Box::new(|| dyn_get(pat, off, w as u8))),
            ("raw_get", Box::new(|| dyn_raw_get(pat, off, w as u8))),
        ];
        if let Some(c) = consts {
            loads.push(("get_const", Box::new(move || (c.get)(pat))));
            loads.push(("raw_get_const", Box::new(move || (c.raw_get)(pat))));
        }
        for (name, f) in loads {
            stats.ops += 1;
            match catch_unwind(AssertUnwindSafe(|| f())) {
                Ok(got) => {
                    stats.loads_checked += 1;
                    if got != want {
                        report(stats, name, n, off, w, 0, pat, &format!("{got:#x}"), &format!("{want:#x}"));
                    }
                }
                Err(_) => {
                    stats.panics += 1;
                    report(stats, name, n, off, w, 0, pat, "PANIC", &format!("{want:#x}"));
                }
            }
        }
        // stores
        for &val in vals.iter().take(nvals) {
            let mut want_st = pat.clone();
            model_set(&mut want_st, off, w, val);
            let mut stores: Vec<(&str, Box<dyn Fn(&mut [u8]) + '_>)> = vec![
                ("set", Box::new(move |s: &mut [u8]| dyn_set(s, off, w as u8, val))),
                ("raw_set", Box::new(move |s: &mut [u8]| dyn_raw_set(s, off, w as u8, val))),
            ];
            if let Some(c) = consts {
                stores.push(("set_const", Box::new(move |s: &mut [u8]| (c.set)(s, val))));
                stores.push(("raw_set_const", Box::new(move |s: &mut [u8]| (c.raw_set)(s, val))));
            }
            for (name, f) in stores {
                stats.ops += 1;
                let mut got_st = pat.clone();
                let r = catch_unwind(AssertUnwindSafe(|| f(&mut got_st)));
                match r {
                    Ok(()) => {
                        stats.stores_checked += 1;
                        stats.untouched_bits_checked += (n * 8 - w) as u64;
                        if got_st != want_st {
                            report(stats, name, n, off, w, val, pat, &hex(&got_st), &hex(&want_st));
                        }
                    }
                    Err(_) => {
                        stats.panics += 1;
                        report(stats, name, n, off, w, val, pat, "PANIC", &hex(&want_st));
                    }
                }
            }
        }
    }
}

fn main() {
    std::panic::set_hook(Box::new(|_| {}));
    let args: Vec<String> = std::env::args().collect();
    let mode = args.get(1).map(String::as_str).unwrap_or("full");
    let seed: u64 = args.get(2).and_then(|s| s.parse().ok()).unwrap_or(1);
    let shard: usize = args.get(3).and_then(|s| s.parse().ok()).unwrap_or(0);
    let nshards: usize = args.get(4).and_then(|s| s.parse().ok()).unwrap_or(1);
    let mut rng = Rng(seed.wrapping_mul(0x9E37_79B9_7F4A_7C15) | 1);
    let mut stats = Stats { triples: 0, ops: 0, stores_checked: 0, loads_checked: 0, untouched_bits_checked: 0, violations: 0, over64_violations: 0, panics: 0, printed: 0 };
    let table = const_table();
    let mut const_used = 0u64;
    match mode {
        "full" => {
            // every (n, off, width) that fits, dynamic entry points (+ const forms where instantiated)
            let mut idx = 0usize;
            for n in 1..=16usize {
                for off in 0..n * 8 {
                    for w in 1..=64usize {
                        if off + w > n * 8 {
                            continue;
                        }
                        idx += 1;
                        if idx % nshards != shard {
                            continue;
                        }
                        let c = table.iter().find(|c| c.n == n && c.off == off && c.width == w);
                        if c.is_some() {
                            const_used += 1;
                        }
                        check_triple(&mut stats, &mut rng, n, off, w, c, 11);
                    }
                }
            }
            // single-bit entry points
            for n in 1..=16usize {
                for idx in 0..n * 8 {
                    for val in [false, true] {
                        for fill in [0u8, 0xFF] {
                            let mut st = vec![fill; n];
                            let mut want = st.clone();
                            model_set(&mut want, idx, 1, val as u64);
                            let r = catch_unwind(AssertUnwindSafe(|| dyn_bits(&mut st, idx, val)));
                            stats.ops += 4;
                            match r {
                                Ok((a, _)) => {
                                    stats.stores_checked += 1;
                                    if st != want || a != val {
                                        report(&mut stats, "set_bit/get_bit", n, idx, 1, val as u64, &[fill], &hex(&st), &hex(&want));
                                    }
                                }
                                Err(_) => {
                                    stats.panics += 1;
                                    report(&mut stats, "set_bit", n, idx, 1, val as u64, &[fill], "PANIC", &hex(&want));
                                }
                            }
                        }
                    }
                }
            }
        }
        "boundary" => {
            // stratified subset for Miri: boundary triples only, fewer values
            let mut idx = 0usize;
            for &n in &[1usize, 2, 4, 8, 9, 16] {
                for off in 0..n * 8 {
                    if ![0usize, 1, 7].contains(&(off % 8)) {
                        continue;
                    }
                    let sb = off / 8;
                    if sb != 0 && sb + 1 != n && sb + 9 < n {
                        continue;
                    }
                    for &w in &[1usize, 7, 8, 9, 31, 32, 33, 57, 63, 64] {
                        if off + w > n * 8 {
                            continue;
                        }
                        idx += 1;
                        if idx % nshards != shard {
                            continue;
                        }
                        let c = table.iter().find(|c| c.n == n && c.off == off && c.width == w);
                        if c.is_some() {
                            const_used += 1;
                        }
                        check_triple(&mut stats, &mut rng, n, off, w, c, 4);
                    }
                }
            }
        }
        _ => {
            eprintln!("usage: vf-bf full|boundary [seed] [shard] [nshards]");
            std::process::exit(2);
        }
    }
    println!(
        "SUMMARY mode={mode} seed={seed} shard={shard}/{nshards} triples={} const_triples={} const_table={} ops={} loads_checked={} stores_checked={} untouched_bits_checked={} violations={} over64_violations={} panics={}",
        stats.triples, const_used, N_CONST_CASES, stats.ops, stats.loads_checked, stats.stores_checked, stats.untouched_bits_checked, stats.violations, stats.over64_violations, stats.panics
    );
}
