fn main(){}
