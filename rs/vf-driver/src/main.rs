//! In-process driver of the bindgen library built from /repo (hooks on).
//!
//! usage: vf-driver <spec.json>      -> one JSON document on stdout
//!
//! spec: { "mode": "jobs" | "threads",
//!         "jobs": [ job, ... ],            job = { "flags": [..] } | { "methods": [[name, arg..], ..] }
//!                                           + optional "callbacks": "record" | "cargo" | "rename:<how>",
//!                                             "out": path, "write": "string" | "write" | "file",
//!                                             "emit_flags": bool, "catch": bool
//!         "order": [job index, ...],       (mode jobs: the history to execute, default 0..n)
//!         "threads": N, "rounds": R }      (mode threads: N threads, each runs `order` R times behind a barrier)
use std::collections::hash_map::DefaultHasher;
use std::hash::{Hash, Hasher};
use std::sync::{Arc, Barrier, Mutex};

use bindgen::callbacks::{
    DeriveInfo, EnumVariantValue, FieldInfo, ImplementsTrait, IntKind, ItemInfo, ParseCallbacks,
};
use serde_json::{json, Value};

mod methods_gen;

pub fn codegen_config(s: &str) -> Option<bindgen::CodegenConfig> {
    let mut c = bindgen::CodegenConfig::empty();
    for part in s.split(',').filter(|p| !p.is_empty()) {
        c |= match part {
            "functions" => bindgen::CodegenConfig::FUNCTIONS,
            "types" => bindgen::CodegenConfig::TYPES,
            "vars" => bindgen::CodegenConfig::VARS,
            "methods" => bindgen::CodegenConfig::METHODS,
            "constructors" => bindgen::CodegenConfig::CONSTRUCTORS,
            "destructors" => bindgen::CodegenConfig::DESTRUCTORS,
            _ => return None,
        };
    }
    Some(c)
}

fn h64(s: &[u8]) -> String {
    let mut h = DefaultHasher::new();
    s.hash(&mut h);
    format!("{:016x}-{}", h.finish(), s.len())
}

#[derive(Debug)]
struct Recorder {
    log: Arc<Mutex<Vec<String>>>,
    rename: Option<String>,
    vouch: Vec<String>,
}

impl Recorder {
    fn push(&self, s: String) {
        self.log.lock().unwrap().push(s);
    }
}

impl ParseCallbacks for Recorder {
    fn header_file(&self, filename: &str) {
        self.push(format!("header_file {filename}"));
    }
    fn include_file(&self, filename: &str) {
        self.push(format!("include_file {filename}"));
    }
    fn read_env_var(&self, key: &str) {
        self.push(format!("read_env_var {key}"));
    }
    fn int_macro(&self, name: &str, value: i64) -> Option<IntKind> {
        self.push(format!("int_macro {name} {value}"));
        None
    }
    fn str_macro(&self, name: &str, value: &[u8]) {
        self.push(format!("str_macro {name} {}", String::from_utf8_lossy(value)));
    }
    fn item_name(&self, info: ItemInfo) -> Option<String> {
        self.push(format!("item_name {}", info.name));
        match self.rename.as_deref() {
            Some("suffix") => Some(format!("{}_vf", info.name)),
            Some("prefix") => Some(format!("vf_{}", info.name)),
            Some("keyword") if info.name.ends_with('0') => Some("match".to_string()),
            _ => None,
        }
    }
    fn field_name(&self, info: FieldInfo<'_>) -> Option<String> {
        self.push(format!("field_name {} {}", info.type_name, info.field_name));
        match self.rename.as_deref() {
            Some("suffix") => Some(format!("{}_vf", info.field_name)),
            Some("keyword") if info.field_name.ends_with('1') => Some("type".to_string()),
            _ => None,
        }
    }
    fn enum_variant_name(
        &self,
        enum_name: Option<&str>,
        variant: &str,
        _value: EnumVariantValue,
    ) -> Option<String> {
        self.push(format!("enum_variant_name {} {variant}", enum_name.unwrap_or("-")));
        match self.rename.as_deref() {
            Some("suffix") => Some(format!("{variant}_vf")),
            _ => None,
        }
    }
    fn blocklisted_type_implements_trait(
        &self,
        name: &str,
        derive_trait: bindgen::callbacks::DeriveTrait,
    ) -> Option<ImplementsTrait> {
        self.push(format!("blocklisted_type_implements_trait {name} {derive_trait:?}"));
        if self.vouch.iter().any(|v| name.ends_with(v.as_str())) {
            Some(ImplementsTrait::Yes)
        } else {
            None
        }
    }
    fn add_derives(&self, info: &DeriveInfo<'_>) -> Vec<String> {
        self.push(format!("add_derives {}", info.name));
        vec![]
    }
}

fn build(job: &Value, log: &Arc<Mutex<Vec<String>>>) -> Result<bindgen::Builder, String> {
    let mut b = if let Some(flags) = job.get("flags").and_then(|f| f.as_array()) {
        let mut args = vec!["bindgen".to_string()];
        args.extend(flags.iter().map(|f| f.as_str().unwrap_or("").to_string()));
        match bindgen::builder_from_flags(args.into_iter()) {
            Ok((b, _out, _verbose)) => b,
            Err(e) => return Err(format!("builder_from_flags: {e}")),
        }
    } else {
        let mut b = bindgen::builder();
        if let Some(ms) = job.get("methods").and_then(|m| m.as_array()) {
            for m in ms {
                let parts: Vec<String> = m
                    .as_array()
                    .map(|a| a.iter().map(|x| x.as_str().unwrap_or("").to_string()).collect())
                    .unwrap_or_default();
                if parts.is_empty() {
                    continue;
                }
                b = match methods_gen::apply(b, &parts[0], &parts[1..]) {
                    Some(b) => b,
                    None => return Err(format!("unknown method or bad args: {:?}", parts)),
                };
            }
        }
        b
    };
    match job.get("callbacks").and_then(|c| c.as_str()) {
        Some("cargo") => b = b.parse_callbacks(Box::new(bindgen::CargoCallbacks::new())),
        Some(c) if c.starts_with("record") || c.starts_with("rename:") => {
            let rename = c.strip_prefix("rename:").map(|s| s.to_string());
            let vouch = job
                .get("vouch")
                .and_then(|v| v.as_array())
                .map(|a| a.iter().filter_map(|x| x.as_str().map(|s| s.to_string())).collect())
                .unwrap_or_default();
            b = b.parse_callbacks(Box::new(Recorder { log: log.clone(), rename, vouch }));
        }
        _ => {}
    }
    Ok(b)
}

fn err_kind(e: &bindgen::BindgenError) -> &'static str {
    match e {
        bindgen::BindgenError::FolderAsHeader(_) => "FolderAsHeader",
        bindgen::BindgenError::InsufficientPermissions(_) => "InsufficientPermissions",
        bindgen::BindgenError::NotExist(_) => "NotExist",
        bindgen::BindgenError::ClangDiagnostic(_) => "ClangDiagnostic",
        bindgen::BindgenError::Codegen(_) => "Codegen",
        bindgen::BindgenError::UnsupportedEdition(_, _) => "UnsupportedEdition",
        _ => "Other",
    }
}

fn run_job(job: &Value) -> Value {
    let log = Arc::new(Mutex::new(Vec::new()));
    let b = match build(job, &log) {
        Ok(b) => b,
        Err(e) => return json!({"ok": false, "stage": "build", "err": e}),
    };
    let flags = if job.get("emit_flags").and_then(|v| v.as_bool()).unwrap_or(false) {
        Some(b.command_line_flags())
    } else {
        None
    };
    let gen = std::panic::catch_unwind(std::panic::AssertUnwindSafe(|| b.generate()));
    let mut res = json!({"flags_out": flags});
    match gen {
        Err(p) => {
            let msg = p
                .downcast_ref::<String>()
                .cloned()
                .or_else(|| p.downcast_ref::<&str>().map(|s| s.to_string()))
                .unwrap_or_default();
            res["ok"] = json!(false);
            res["stage"] = json!("panic");
            res["err"] = json!(msg);
        }
        Ok(Err(e)) => {
            res["ok"] = json!(false);
            res["stage"] = json!("generate");
            res["err_kind"] = json!(err_kind(&e));
            res["err"] = json!(e.to_string());
        }
        Ok(Ok(bindings)) => {
            let how = job.get("write").and_then(|v| v.as_str()).unwrap_or("string");
            let text: Result<Vec<u8>, String> = match how {
                "write" => {
                    let mut buf = Vec::new();
                    bindings.write(Box::new(&mut buf)).map(|_| buf).map_err(|e| e.to_string())
                }
                "file" => {
                    let p = job.get("out").and_then(|v| v.as_str()).unwrap_or("/dev/null");
                    bindings
                        .write_to_file(p)
                        .map_err(|e| e.to_string())
                        .and_then(|_| std::fs::read(p).map_err(|e| e.to_string()))
                }
                _ => Ok(bindings.to_string().into_bytes()),
            };
            match text {
                Ok(t) => {
                    res["ok"] = json!(true);
                    res["hash"] = json!(h64(&t));
                    if how != "file" {
                        if let Some(p) = job.get("out").and_then(|v| v.as_str()) {
                            let _ = std::fs::write(p, &t);
                        }
                    }
                }
                Err(e) => {
                    res["ok"] = json!(false);
                    res["stage"] = json!("write");
                    res["err"] = json!(e);
                }
            }
        }
    }
    let l = log.lock().unwrap();
    res["callbacks_hash"] = json!(h64(l.join("\n").as_bytes()));
    res["callbacks_n"] = json!(l.len());
    if job.get("callbacks_full").and_then(|v| v.as_bool()).unwrap_or(false) {
        res["callbacks"] = json!(l.clone());
    }
    res
}

fn main() {
    let path = std::env::args().nth(1).expect("spec path");
    if path == "--methods" {
        let m: Vec<Value> = methods_gen::METHODS.iter().map(|(n, k)| json!([n, k])).collect();
        println!("{}", json!({"methods": m, "holes": methods_gen::HOLES}));
        return;
    }
    let spec: Value = serde_json::from_str(&std::fs::read_to_string(&path).expect("read spec")).expect("spec json");
    std::panic::set_hook(Box::new(|info| {
        eprintln!("PANIC-HOOK {info}");
    }));
    let jobs = spec["jobs"].as_array().cloned().unwrap_or_default();
    let order: Vec<usize> = spec
        .get("order")
        .and_then(|o| o.as_array())
        .map(|a| a.iter().map(|x| x.as_u64().unwrap_or(0) as usize).collect())
        .unwrap_or_else(|| (0..jobs.len()).collect());
    let mode = spec.get("mode").and_then(|m| m.as_str()).unwrap_or("jobs");
    if mode == "threads" {
        let n = spec.get("threads").and_then(|t| t.as_u64()).unwrap_or(4) as usize;
        let rounds = spec.get("rounds").and_then(|t| t.as_u64()).unwrap_or(1) as usize;
        let barrier = Arc::new(Barrier::new(n));
        let jobs = Arc::new(jobs);
        let order = Arc::new(order);
        let mut handles = vec![];
        for t in 0..n {
            let barrier = barrier.clone();
            let jobs = jobs.clone();
            let order = order.clone();
            handles.push(std::thread::Builder::new().stack_size(64 << 20).spawn(move || {
                let mut out = vec![];
                for r in 0..rounds {
                    barrier.wait();
                    for k in 0..order.len() {
                        // rotate so that different threads work on different headers at the same time
                        let idx = order[(k + t * (1 + r)) % order.len()];
                        let mut v = run_job(&jobs[idx]);
                        v["job"] = json!(idx);
                        v["thread"] = json!(t);
                        v["round"] = json!(r);
                        out.push(v);
                    }
                }
                out
            }).unwrap());
        }
        let mut all = vec![];
        let mut crashed = 0;
        for h in handles {
            match h.join() {
                Ok(v) => all.extend(v),
                Err(_) => crashed += 1,
            }
        }
        println!("{}", json!({"results": all, "threads_crashed": crashed}));
    } else {
        let mut all = vec![];
        for (pos, idx) in order.iter().enumerate() {
            let mut v = run_job(&jobs[*idx]);
            v["job"] = json!(idx);
            v["pos"] = json!(pos);
            all.push(v);
        }
        println!("{}", json!({"results": all}));
    }
}
