//! Inventory of a bindings file: items per module, derives, repr, generics,
//! fields, impls, extern blocks (abi / attrs / unsafety), layout assertions
//! with their numbers, and a census of Rust-version-gated constructs.
//!
//! usage: vf-inv <file.rs>...        (one JSON document per file, one per line)
use quote::ToTokens;
use serde_json::{json, Value};
use syn::punctuated::Punctuated;
use syn::{Attribute, Expr, Fields, ForeignItem, Item, Lit, Meta, Token};

fn ts<T: ToTokens>(t: &T) -> String {
    t.to_token_stream().to_string()
}

fn attr_strings(attrs: &[Attribute], with_doc: bool) -> Vec<String> {
    attrs
        .iter()
        .filter(|a| with_doc || !a.path().is_ident("doc"))
        .map(ts)
        .collect()
}

fn derives(attrs: &[Attribute]) -> Vec<String> {
    let mut out = vec![];
    for a in attrs {
        if a.path().is_ident("derive") {
            if let Ok(list) = a.parse_args_with(Punctuated::<syn::Path, Token![,]>::parse_terminated) {
                for p in list {
                    out.push(ts(&p).replace(' ', ""));
                }
            }
        }
    }
    out
}

fn reprs(attrs: &[Attribute]) -> Vec<String> {
    let mut out = vec![];
    for a in attrs {
        if a.path().is_ident("repr") {
            if let Ok(list) = a.parse_args_with(Punctuated::<Meta, Token![,]>::parse_terminated) {
                for m in list {
                    out.push(ts(&m).replace(' ', ""));
                }
            }
        }
    }
    out
}

fn fields_json(f: &Fields) -> Value {
    let mut v = vec![];
    for (i, fld) in f.iter().enumerate() {
        v.push(json!({
            "name": fld.ident.as_ref().map(|i| i.to_string()).unwrap_or_else(|| i.to_string()),
            "ty": ts(&fld.ty),
            "vis": ts(&fld.vis),
            "attrs": attr_strings(&fld.attrs, false),
        }));
    }
    Value::Array(v)
}

fn generics_json(g: &syn::Generics) -> Value {
    Value::Array(g.params.iter().map(|p| Value::String(ts(p))).collect())
}

struct Inv {
    items: Vec<Value>,
    assertions: Vec<Value>,
    census: std::collections::BTreeMap<String, u64>,
}

fn lit_usize(e: &Expr) -> Option<u64> {
    match e {
        Expr::Lit(l) => match &l.lit {
            Lit::Int(i) => i.base10_parse::<u64>().ok(),
            _ => None,
        },
        Expr::Paren(p) => lit_usize(&p.expr),
        Expr::Group(g) => lit_usize(&g.expr),
        _ => None,
    }
}

fn lit_str(e: &Expr) -> Option<String> {
    match e {
        Expr::Lit(l) => match &l.lit {
            Lit::Str(s) => Some(s.value()),
            _ => None,
        },
        _ => None,
    }
}

/// "Size of X" / "Alignment of X" / "Offset of field: X::f" (+ template forms)
fn classify_msg(msg: &str) -> (String, String, Option<String>) {
    let m = msg.trim();
    for (pre, kind) in [
        ("Size of template specialization: ", "tsize"),
        ("Align of template specialization: ", "talign"),
        ("Alignment of template specialization: ", "talign"),
        ("Size of ", "size"),
        ("Alignment of ", "align"),
    ] {
        if let Some(rest) = m.strip_prefix(pre) {
            return (kind.into(), rest.to_string(), None);
        }
    }
    if let Some(rest) = m.strip_prefix("Offset of field: ") {
        if let Some(idx) = rest.rfind("::") {
            return ("offset".into(), rest[..idx].to_string(), Some(rest[idx + 2..].to_string()));
        }
    }
    ("unknown".into(), m.to_string(), None)
}

fn first_generic_type(e: &Expr) -> Option<String> {
    // ::std::mem::size_of::<T>()  or offset_of!(T, f)
    struct V(Option<String>);
    impl<'ast> syn::visit::Visit<'ast> for V {
        fn visit_angle_bracketed_generic_arguments(&mut self, a: &'ast syn::AngleBracketedGenericArguments) {
            if self.0.is_none() {
                if let Some(syn::GenericArgument::Type(t)) = a.args.first() {
                    self.0 = Some(ts(t));
                }
            }
        }
        fn visit_macro(&mut self, m: &'ast syn::Macro) {
            if self.0.is_none() && m.path.segments.last().map(|s| s.ident == "offset_of").unwrap_or(false) {
                let s = m.tokens.to_string();
                if let Some(idx) = s.rfind(',') {
                    self.0 = Some(s[..idx].trim().to_string());
                }
            }
        }
    }
    let mut v = V(None);
    syn::visit::Visit::visit_expr(&mut v, e);
    v.0
}

impl Inv {
    fn bump(&mut self, k: &str, n: u64) {
        *self.census.entry(k.to_string()).or_insert(0) += n;
    }

    fn assertion(&mut self, module: &str, form: &str, msg: &str, value: Option<u64>, lhs: &Expr) {
        let (kind, ty, field) = classify_msg(msg);
        self.assertions.push(json!({
            "module": module, "form": form, "kind": kind, "ty": ty, "field": field,
            "value": value, "rust_ty": first_generic_type(lhs), "msg": msg,
        }));
    }

    fn const_block_assertions(&mut self, module: &str, e: &Expr) -> bool {
        // const _: () = { ["msg"][lhs - N]; ... };
        let Expr::Block(b) = e else { return false };
        let mut any = false;
        for st in &b.block.stmts {
            let ex = match st {
                syn::Stmt::Expr(ex, _) => ex,
                _ => continue,
            };
            if let Expr::Index(ix) = ex {
                let msg = match &*ix.expr {
                    Expr::Array(a) => a.elems.first().and_then(lit_str),
                    _ => None,
                };
                if let (Some(msg), Expr::Binary(bin)) = (msg, &*ix.index) {
                    if matches!(bin.op, syn::BinOp::Sub(_)) {
                        self.assertion(module, "const", &msg, lit_usize(&bin.right), &bin.left);
                        any = true;
                    }
                }
            } else if let Expr::Macro(m) = ex {
                // assert!(size_of::<T>() == N, "msg") forms
                let name = m.mac.path.segments.last().map(|s| s.ident.to_string()).unwrap_or_default();
                if name == "assert" || name == "assert_eq" {
                    if let Ok(args) = m.mac.parse_body_with(Punctuated::<Expr, Token![,]>::parse_terminated) {
                        let args: Vec<&Expr> = args.iter().collect();
                        if name == "assert_eq" && args.len() >= 3 {
                            if let Some(msg) = lit_str(args[2]) {
                                self.assertion(module, "const-assert_eq", &msg, lit_usize(args[1]), args[0]);
                                any = true;
                            }
                        } else if name == "assert" && args.len() >= 2 {
                            if let (Expr::Binary(bin), Some(msg)) = (args[0], lit_str(args[1])) {
                                self.assertion(module, "const-assert", &msg, lit_usize(&bin.right), &bin.left);
                                any = true;
                            }
                        }
                    }
                }
            }
        }
        any
    }

    fn test_fn_assertions(&mut self, module: &str, f: &syn::ItemFn) -> bool {
        let mut any = false;
        for st in &f.block.stmts {
            let mac = match st {
                syn::Stmt::Macro(m) => &m.mac,
                syn::Stmt::Expr(Expr::Macro(m), _) => &m.mac,
                _ => continue,
            };
            let name = mac.path.segments.last().map(|s| s.ident.to_string()).unwrap_or_default();
            if name != "assert_eq" {
                continue;
            }
            if let Ok(args) = mac.parse_body_with(Punctuated::<Expr, Token![,]>::parse_terminated) {
                let args: Vec<&Expr> = args.iter().collect();
                if args.len() >= 3 {
                    let msg = lit_str(args[2]).or_else(|| {
                        // concat!("Size of: ", stringify!(T)) older form
                        Some(ts(args[2]))
                    });
                    if let Some(msg) = msg {
                        self.assertion(module, "test", &msg, lit_usize(args[1]), args[0]);
                        any = true;
                    }
                }
            }
        }
        any
    }

    fn census_tokens(&mut self, text: &str) {
        // crude but deterministic token-text census for gated constructs
        let pats: [(&str, &str); 11] = [
            ("offset_of !", "offset_of"),
            ("from_bytes_with_nul_unchecked", "cstr_from_bytes_unchecked"),
            (":: core :: ffi :: c_", "core_ffi_ctypes"),
            (":: std :: os :: raw :: c_", "std_os_raw_ctypes"),
            ("ptr :: from_raw_parts", "ptr_from_raw_parts"),
            ("to_raw_parts", "ptr_to_raw_parts"),
            ("for_value_raw", "layout_for_value_raw"),
            ("# ! [feature", "feature_attrs"),
            ("addr_of !", "addr_of"),
            ("MaybeUninit", "maybe_uninit"),
            ("unsafe fn", "unsafe_fn"),
        ];
        for (p, k) in pats {
            let mut n = text.matches(p).count() as u64;
            if k == "core_ffi_ctypes" {
                // `core::ffi::c_void` is as old as 1.30; the 1.64 gate is about c_int and friends
                n -= text.matches(":: core :: ffi :: c_void").count() as u64;
            }
            if n > 0 {
                self.bump(k, n);
            }
        }
        // ABI strings of bare function types (`extern "X" fn (..)` inside typedefs, fields, parameters): same gates as extern blocks
        let mut rest = text;
        while let Some(i) = rest.find("extern \"") {
            let after = &rest[i + 8..];
            if let Some(j) = after.find('"') {
                let abi = &after[..j];
                if after[j + 1..].trim_start().starts_with("fn") {
                    self.bump(&format!("abi:{abi}"), 1);
                    self.bump("fnptr_abi_strings", 1);
                }
                rest = &after[j + 1..];
            } else {
                break;
            }
        }
    }

    fn items(&mut self, module: &str, items: &[Item]) {
        for (pos, it) in items.iter().enumerate() {
            let tokens = ts(it);
            match it {
                Item::Mod(m) => {
                    let name = m.ident.to_string();
                    self.items.push(json!({"module": module, "pos": pos, "kind": "mod", "name": name,
                        "attrs": attr_strings(&m.attrs, false)}));
                    if let Some((_, inner)) = &m.content {
                        let path = format!("{module}::{name}");
                        self.items(&path, inner);
                    }
                }
                Item::Struct(s) => self.items.push(json!({"module": module, "pos": pos, "kind": "struct",
                    "name": s.ident.to_string(), "derives": derives(&s.attrs), "repr": reprs(&s.attrs),
                    "attrs": attr_strings(&s.attrs, false), "generics": generics_json(&s.generics),
                    "fields": fields_json(&s.fields), "tuple": matches!(s.fields, Fields::Unnamed(_)),
                    "tokens": tokens})),
                Item::Union(u) => self.items.push(json!({"module": module, "pos": pos, "kind": "union",
                    "name": u.ident.to_string(), "derives": derives(&u.attrs), "repr": reprs(&u.attrs),
                    "attrs": attr_strings(&u.attrs, false), "generics": generics_json(&u.generics),
                    "fields": fields_json(&Fields::Named(u.fields.clone())), "tokens": tokens})),
                Item::Enum(e) => {
                    let variants: Vec<Value> = e.variants.iter().map(|v| json!({
                        "name": v.ident.to_string(),
                        "disc": v.discriminant.as_ref().map(|(_, d)| ts(d)),
                    })).collect();
                    self.items.push(json!({"module": module, "pos": pos, "kind": "enum",
                        "name": e.ident.to_string(), "derives": derives(&e.attrs), "repr": reprs(&e.attrs),
                        "attrs": attr_strings(&e.attrs, false), "variants": variants, "tokens": tokens}))
                }
                Item::Type(t) => self.items.push(json!({"module": module, "pos": pos, "kind": "type",
                    "name": t.ident.to_string(), "generics": generics_json(&t.generics), "ty": ts(&t.ty),
                    "attrs": attr_strings(&t.attrs, false), "tokens": tokens})),
                Item::Const(c) => {
                    let name = c.ident.to_string();
                    if name == "_" && self.const_block_assertions(module, &c.expr) {
                        self.items.push(json!({"module": module, "pos": pos, "kind": "layout_assert",
                            "name": "_", "tokens": tokens}));
                    } else {
                        if tokens.contains("c\"") { self.bump("cstr_literal_consts", 1); }
                        self.items.push(json!({"module": module, "pos": pos, "kind": "const", "name": name,
                            "ty": ts(&c.ty), "expr": ts(&c.expr), "attrs": attr_strings(&c.attrs, false),
                            "tokens": tokens}))
                    }
                }
                Item::Static(s) => self.items.push(json!({"module": module, "pos": pos, "kind": "static",
                    "name": s.ident.to_string(), "ty": ts(&s.ty), "tokens": tokens})),
                Item::Fn(f) => {
                    let name = f.sig.ident.to_string();
                    let is_test = f.attrs.iter().any(|a| a.path().is_ident("test"));
                    if is_test && self.test_fn_assertions(module, f) {
                        self.items.push(json!({"module": module, "pos": pos, "kind": "layout_test",
                            "name": name, "tokens": tokens}));
                    } else {
                        self.items.push(json!({"module": module, "pos": pos, "kind": "fn", "name": name,
                            "sig": ts(&f.sig), "attrs": attr_strings(&f.attrs, false), "tokens": tokens}))
                    }
                }
                Item::Impl(i) => {
                    let methods: Vec<Value> = i.items.iter().filter_map(|ii| match ii {
                        syn::ImplItem::Fn(f) => Some(json!({"name": f.sig.ident.to_string(), "sig": ts(&f.sig),
                            "attrs": attr_strings(&f.attrs, false)})),
                        _ => None,
                    }).collect();
                    self.items.push(json!({"module": module, "pos": pos, "kind": "impl",
                        "name": ts(&i.self_ty), "self_ty": ts(&i.self_ty),
                        "trait": i.trait_.as_ref().map(|(_, p, _)| ts(p)),
                        "generics": generics_json(&i.generics), "methods": methods, "tokens": tokens}))
                }
                Item::Use(u) => self.items.push(json!({"module": module, "pos": pos, "kind": "use",
                    "name": ts(&u.tree), "tokens": tokens})),
                Item::ForeignMod(fm) => {
                    let abi = fm.abi.name.as_ref().map(|n| n.value()).unwrap_or_else(|| "C".into());
                    let block_attrs = attr_strings(&fm.attrs, true);
                    let unsafety = fm.unsafety.is_some();
                    *self.census.entry(format!("abi:{abi}")).or_insert(0) += 1;
                    if unsafety {
                        // `unsafe extern "X" { .. }` blocks (1.82); `unsafe extern "X" fn(..)` pointer types are as old as Rust
                        self.bump("unsafe_extern", 1);
                    }
                    let mut members = vec![];
                    for fi in &fm.items {
                        let (kind, name, attrs, sig) = match fi {
                            ForeignItem::Fn(f) => ("foreign_fn", f.sig.ident.to_string(), attr_strings(&f.attrs, true), ts(&f.sig)),
                            ForeignItem::Static(s) => ("foreign_static", s.ident.to_string(), attr_strings(&s.attrs, true),
                                format!("{}static {}{}: {}", ts(&s.vis), match s.mutability { syn::StaticMutability::Mut(_) => "mut ", _ => "" }, s.ident, ts(&s.ty))),
                            ForeignItem::Type(t) => ("foreign_type", t.ident.to_string(), attr_strings(&t.attrs, true), String::new()),
                            other => ("foreign_other", String::new(), vec![], ts(other)),
                        };
                        let mutable = matches!(fi, ForeignItem::Static(s) if matches!(s.mutability, syn::StaticMutability::Mut(_)));
                        let link_name = match fi {
                            ForeignItem::Fn(f) => link_name(&f.attrs),
                            ForeignItem::Static(s) => link_name(&s.attrs),
                            _ => None,
                        };
                        members.push(json!({"kind": kind, "name": name, "attrs": attrs, "sig": sig,
                            "tokens": ts(fi), "mutable": mutable, "link_name": link_name}));
                    }
                    self.items.push(json!({"module": module, "pos": pos, "kind": "extern_block", "name": "",
                        "abi": abi, "block_attrs": block_attrs, "unsafety": unsafety, "members": members,
                        "tokens": tokens}))
                }
                Item::Macro(m) => self.items.push(json!({"module": module, "pos": pos, "kind": "macro",
                    "name": ts(&m.mac.path), "tokens": tokens})),
                other => self.items.push(json!({"module": module, "pos": pos, "kind": "other", "name": "",
                    "tokens": ts(other)})),
            }
        }
    }
}

fn count_cstr_literals(ts: proc_macro2::TokenStream) -> u64 {
    let mut n = 0;
    for tt in ts {
        match tt {
            proc_macro2::TokenTree::Group(g) => n += count_cstr_literals(g.stream()),
            proc_macro2::TokenTree::Literal(l) => {
                let s = l.to_string();
                if s.starts_with("c\"") || s.starts_with("cr\"") || s.starts_with("cr#") {
                    n += 1;
                }
            }
            _ => {}
        }
    }
    n
}

fn link_name(attrs: &[Attribute]) -> Option<String> {
    for a in attrs {
        if a.path().is_ident("link_name") {
            if let Meta::NameValue(nv) = &a.meta {
                return lit_str(&nv.value);
            }
        }
    }
    None
}

fn flat_tokens(ts: proc_macro2::TokenStream, out: &mut Vec<String>) {
    for tt in ts {
        match tt {
            proc_macro2::TokenTree::Group(g) => {
                let (o, c) = match g.delimiter() {
                    proc_macro2::Delimiter::Parenthesis => ("(", ")"),
                    proc_macro2::Delimiter::Brace => ("{", "}"),
                    proc_macro2::Delimiter::Bracket => ("[", "]"),
                    proc_macro2::Delimiter::None => ("", ""),
                };
                if !o.is_empty() {
                    out.push(o.to_string());
                }
                flat_tokens(g.stream(), out);
                if !c.is_empty() {
                    out.push(c.to_string());
                }
            }
            proc_macro2::TokenTree::Punct(p) => out.push(p.as_char().to_string()),
            other => out.push(other.to_string().replace('\n', "\\n")),
        }
    }
}

fn main() {
    let mut rc = 0;
    let args: Vec<String> = std::env::args().skip(1).collect();
    if args.first().map(String::as_str) == Some("--tokens") {
        // one token per line; doc comments tokenise as #[doc = "..."] attributes
        for path in &args[1..] {
            let text = std::fs::read_to_string(path).unwrap_or_default();
            match text.parse::<proc_macro2::TokenStream>() {
                Ok(ts) => {
                    let mut out = vec![];
                    flat_tokens(ts, &mut out);
                    println!("{}", out.join("\n"));
                }
                Err(e) => {
                    println!("TOKENIZE-ERROR {e}");
                    rc = 1;
                }
            }
        }
        std::process::exit(rc);
    }
    for path in args {
        let text = match std::fs::read_to_string(&path) {
            Ok(t) => t,
            Err(e) => {
                println!("{}", json!({"file": path, "error": format!("read: {e}")}));
                rc = 1;
                continue;
            }
        };
        match syn::parse_file(&text) {
            Ok(file) => {
                let mut inv = Inv { items: vec![], assertions: vec![], census: Default::default() };
                inv.items("root", &file.items);
                let toks = file.to_token_stream().to_string();
                inv.census_tokens(&toks);
                let ncstr = count_cstr_literals(file.to_token_stream());
                if ncstr > 0 {
                    inv.bump("cstr_literals_textual", ncstr);
                }
                println!("{}", json!({"file": path, "inner_attrs": attr_strings(&file.attrs, true),
                    "items": inv.items, "assertions": inv.assertions, "census": inv.census}));
            }
            Err(e) => {
                println!("{}", json!({"file": path, "error": format!("parse: {e}")}));
                rc = 1;
            }
        }
    }
    std::process::exit(rc);
}
