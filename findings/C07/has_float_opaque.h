struct F { float x; };
struct O2 { struct F f; };
struct S { struct O2 o; int y; };
struct S2 { struct F f; int y; };
