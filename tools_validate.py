#!/usr/bin/env python3
"""Validate MANIFEST.json and evidence/*.json against the harness schemas (needs python3-vt for jsonschema)."""
import glob, json, sys
import jsonschema
ok = True
m = json.load(open('/verif/MANIFEST.json'))
jsonschema.validate(m, json.load(open('/root/.vp/MANIFEST.schema.json')))
print("MANIFEST ok: %d checks, %d not_applicable" % (len(m['checks']), len(m.get('not_applicable', []))))
es = json.load(open('/root/.vp/EVIDENCE.schema.json'))
for f in sorted(glob.glob('/verif/evidence/*.json')):
    try:
        jsonschema.validate(json.load(open(f)), es)
        print("ok", f)
    except Exception as e:
        ok = False
        print("BAD", f, str(e)[:300])
sys.exit(0 if ok else 1)
