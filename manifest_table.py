# Table of claimed checks (exec'd by tools_manifest.py)
NOT_YET = {}

chk("C03", "exploration",
    "Exhaustive native sweep of every (storage size, bit offset, width) triple through all accessor entry points of the "
    "embedded bit-field unit against a reference bit-vector model, the boundary subset again under Miri (UB / out-of-bounds), "
    "plus generated C records whose bit-fields are written/read on both sides of the FFI boundary with whole-object comparison. "
    "Runtime monitoring: the verdict is an oracle over observed executions; it says nothing about records not generated.",
    "Trusts: the 20-line bit-vector model; clang 14 as definition of C bit-field layout/values; rustc/Miri semantics; x86_64 little-endian host only.",
    "runtime monitoring: reference-model differential sweep (native + Miri) and C<->Rust differential probes",
    "DESIGN.md §4 C03")

chk("C02", "exploration",
    "Seeded C type graphs (nested/anonymous records, arrays, typedef chains, enums, bit-field runs, packed/aligned/pragma pack, "
    "flexible arrays) x presentation option sets; one executable links a clang-compiled probe with a rustc-compiled probe that "
    "include!s the bindings; sizes, alignments, member offsets/widths/signedness and values written on either side are compared, "
    "objects live between canaries (memcheck on a sample in the thorough tier); bindgen's own const layout assertions are "
    "evaluated by rustc. Held = no difference on any executed (header, option set).",
    "Trusts clang 14 / rustc 1.95 on the x86_64 host as the two specifications; the generator's model only names members. "
    "Compile failures of the bindings other than layout assertions are C01's and are counted inconclusive here.",
    "runtime monitoring: differential C<->Rust probe executables + metamorphic option sets",
    "DESIGN.md §4 C02")
