# Table of claimed checks (exec'd by tools_manifest.py)
NOT_YET = {}

chk("C03", "exploration",
    "Exhaustive native sweep of every (storage size, bit offset, width) triple through all accessor entry points of the "
    "embedded bit-field unit against a reference bit-vector model, the boundary subset again under Miri (UB / out-of-bounds), "
    "plus generated C records whose bit-fields are written/read on both sides of the FFI boundary with whole-object comparison, and "
    "C++ class templates / derived structs with bit-fields compared byte-wise against a C++ reference program. "
    "Runtime monitoring: the verdict is an oracle over observed executions; it says nothing about records not generated.",
    "Trusts: the 20-line bit-vector model; clang 14 as definition of C bit-field layout/values; rustc/Miri semantics; x86_64 little-endian host only.",
    "runtime monitoring: reference-model differential sweep (native + Miri) and C<->Rust differential probes",
    "DESIGN.md §4 C03")

chk("C02", "exploration",
    "Seeded C type graphs (nested/anonymous records, arrays, typedef chains, enums, bit-field runs, packed/aligned/pragma pack, "
    "flexible arrays) x presentation option sets; one executable links a clang-compiled probe with a rustc-compiled probe that "
    "include!s the bindings; sizes, alignments, member offsets/widths/signedness and values written on either side are compared, "
    "objects live between canaries (memcheck on a sample in the thorough tier); bindgen's own const layout assertions are "
    "evaluated by rustc. C++ class graphs (multiple inheritance, vptr, templates) and ~50 hand-written layout-hostile records are "
    "judged by those assertions (const form and #[test] form, which is run). Held = no difference on any executed (header, option set).",
    "Trusts clang 14 / rustc 1.95 on the x86_64 host as the two specifications; the generator's model only names members. "
    "Compile failures of the bindings other than layout assertions are C01's and are counted inconclusive here.",
    "runtime monitoring: differential C<->Rust probe executables + metamorphic option sets",
    "DESIGN.md §4 C02")

chk("C18", "exploration",
    "Each repository header and each generated C/C++ program (interleaved functions, statics, types, namespaces, several ABIs, "
    "per-function and block attributes, both sides of `unsafe extern`) is generated four times (no pass / merge / sort / both); "
    "syn inventories give per-module item multisets with foreign items flattened to (abi, block attrs, unsafety, item+attrs), "
    "which must be equal, merged blocks must have pairwise distinct keys, per-kind relative order must be kept, processed output "
    "must still compile when the unprocessed one does, and hook K4 re-applies the passes to their own output in-process.",
    "Trusts syn's parse and token printing; run with --formatter none so that rustfmt's import re-ordering is not attributed to the passes.",
    "runtime monitoring: metamorphic 4-way relation over item inventories + in-process idempotence hook",
    "DESIGN.md §4 C18")

chk("C14", "exploration",
    "Complete grid: two trigger headers x every minor 1.51..1.90 (+ patch, beta, nightly-suffixed spellings) and nightly x "
    "{no edition, 2018, 2021, 2024}. A token census of gated constructs is checked against an independent release table "
    "(no construct below its version), capabilities must be monotone along the version axis, unsupported edition/target pairs "
    "must be rejected without output, the default must equal the newest stable target at its newest edition, and outputs are "
    "compiled by the host rustc with the requested edition.",
    "Trusts my release table (from the Rust release notes) and the census patterns of vf-inv; host rustc 1.95 only.",
    "runtime monitoring: exhaustive configuration grid with census oracle against an independent table",
    "DESIGN.md §4 C14")

chk("C11", "exploration",
    "Repository headers and generated programs: (a) N separate CLI processes per header under varied ASLR, environment, cwd and "
    "stdout-vs-file, hashing bindings, depfile and wrapper source; (b) in-process histories of up to 50 generations in random "
    "order; (c) 8/16 threads generating concurrently behind a barrier; every generation (bindings hash, error kind and the "
    "recorded ParseCallbacks notification sequence) is compared with a fresh single-generation process.",
    "Output equality is by 64-bit SipHash + length inside the driver and sha256 for files; deadlock only via wall-clock watchdog (inconclusive).",
    "runtime monitoring: repeated/concurrent executions with output-equality oracle (processes, histories, threads)",
    "DESIGN.md §4 C11")

chk("C12", "exploration",
    "Mutants of the repository headers (classified by clang -fsyntax-only), ~120 hostile single constructs alone/paired/spliced, "
    "deep-nesting and very large inputs, generated programs x option sets from an 85-group flag pool, and enumerated file-system "
    "and edition/target faults through both the library (typed Result inside catch_unwind in a child) and the CLI. Oracle: exit "
    "status, signal, 'panicked at' text, leftover output, error variant, and a CPU-time bound per generation.",
    "Classification trusts the clang CLI to agree with libclang (disagreements are counted, not judged). Non-termination is restated as a CPU bound.",
    "runtime monitoring: hostile/mutated/fault workloads with crash, error-value and CPU-bound oracles",
    "DESIGN.md §4 C12")

chk("C13", "exploration",
    "Builder configurations expressed as Builder method calls (dispatcher generated from the signatures in options/mod.rs): every "
    "single option with every enumerated/sampled value, pairs of boolean options, random configurations of up to 25 options with "
    "hostile string arguments; each is turned into flags, parsed back in a child process (clap exits on error), turned into flags "
    "again, and all three of builder / parsed-back builder / real CLI must generate byte-identical bindings on C and C++ trigger headers.",
    "Options with process-level side effects (emit_*, time_phases, header set, rustfmt paths, depfile) are covered by C11/C15/C17 instead.",
    "runtime monitoring: round-trip executions builder->flags->builder->CLI with output-equality oracle",
    "DESIGN.md §4 C13")

chk("C15", "fault_enumeration",
    "(A) none / rustfmt / prettyplease on repository headers and generated programs: proc_macro2 token sequences compared strictly, "
    "then under exactly three recorded formatter normalisations (known findings), header comment and raw lines counted and ordered. "
    "(B) 21 enumerated fault modes of the formatter child x small/large (>64 KiB pipe) bindings x rustfmt configuration present/absent "
    "through the CLI, and each fault through write / write_to_file / to_string: the call must succeed, output must be token-identical "
    "to unformatted bindings, no panic/signal, CPU bound respected.",
    "Fault list is mine (exit codes, signals, partial/invalid output, stdin/stdout pipe behaviours); a formatter exiting 0 with different well-formed text is outside the claim.",
    "runtime monitoring: enumerated child-process fault injection + token-identity oracle",
    "DESIGN.md §4 C15")

chk("C17", "exploration",
    "Generated include DAGs with a model of which files are read; depfile prerequisites (clang/ninja-convention lexer), recorded "
    "header_file/include_file callbacks, clang -M and the model must agree as sets; GNU make consumes the depfile (make -q after "
    "touching each prerequisite); depfile target must be the configured name; CargoCallbacks output vs reported files and consulted "
    "environment variables, with probes that an environment variable which changes the bindings is announced.",
    "clang -M is the independent witness of 'read'; cases where my model and clang -M disagree are inconclusive. GNU make only for names without backslashes.",
    "runtime monitoring: set-equality oracle over depfile / callbacks / clang -M + make as consumer",
    "DESIGN.md §4 C17")

chk("C01", "exploration",
    "Headers from six generator families (C type graphs, function/variable libraries, hostile identifiers — Rust keywords of all "
    "editions, primitive and prelude names, '_', '$', tag/ordinary collisions —, C++ namespaces, ~110 hostile single constructs in C "
    "and C++) that clang accepts, x option sets sampled from a 68-group pool x edition 2018/2021/2024; the bindings are compiled by "
    "rustc in the matching edition (layout assertions are evaluated). Hostile regions where the unchanged tree already fails are "
    "recorded as known findings with per-construct signatures. Further families: C++ class libraries with collision-prone member names, "
    "class/template graphs and template chains, and deterministic regression headers (every keyword in every identifier position, helper "
    "types needed only inside a namespace, reproducers of repaired defects) that run on every invocation.",
    "rustc 1.95 defines valid Rust. Options documented as not compiling alone and C++ features documented as unsupported are excluded (DESIGN §4).",
    "runtime monitoring: generate-and-compile oracle over seeded header/option/edition space",
    "DESIGN.md §4 C01")

chk("C07", "exploration",
    "Invariant at a hook: after each of bindgen's fix-point analyses converges, a clone is iterated round-robin over all nodes ignoring "
    "the dependency map; nodes that still change are not at the fixed point, and every later look-up of such an (analysis, item) pair "
    "by another analysis or by code generation is reported. Driven by all repository headers, generated C type graphs and generated "
    "C++ declaration graphs; the graphs are additionally rendered in every valid top-level order (forward declarations hoisted or "
    "sunk) and per-type inventories (derives, generics, fields, repr, impls, assertion numbers) must agree across orders.",
    "Sound for rules that only update the constrained node's own entry (true for all seven analyses). Work-list permutation is only an amplifier, never a verdict.",
    "runtime monitoring: in-process invariant hook (reference fix-point + consultation probes) and metamorphic declaration re-ordering",
    "DESIGN.md §4 C07")

chk("C09", "exploration",
    "Generated declaration graphs (structs, typedefs, enums, unnamed enums, macros, globals, functions; needs relation incl. pointers "
    "and function-pointer members; names that are proper prefixes/suffixes of each other) x selections of 1..3 allowlist kinds x pattern "
    "forms (literal, prefix.*, alternation, character class, .*suffix) with optional overlapping blocklist and --no-recursive-allowlist. "
    "Inventories of the allowlisted and the full run give: selected subset of emitted; emitted subset of closure; closure subset of emitted "
    "(recursive); equality (non-recursive); blocklisted roots absent; token identity of items and their layout assertions; rustc accepts "
    "the allowlisted output alone.",
    "Python re.fullmatch is the reference for anchored matching on the restricted syntax; derive attributes are compared only when neither a blocklist nor --no-recursive-allowlist is involved (both legitimately change derives).",
    "runtime monitoring: metamorphic allowlisted-vs-full inventories against a generator-side dependency model",
    "DESIGN.md §4 C09")

chk("C10", "exploration",
    "Generated C type graphs where a random subset of the named records/enums is blocklisted (type or item pattern) or made opaque while "
    "other records use them as members, array elements and pointees; the harness supplies a blob definition with clang's size/alignment "
    "for each blocklisted type. The C+Rust probe executable compares sizes/alignments of all records and offsets/values of the "
    "unaffected ones with C; inventories show that blocklisted names are never defined but still named (and that rustc misses exactly "
    "those names without the user's definition), that opaque types expose only the blob, and that direct containers of blocklisted types "
    "derive none of the nine traits. C++ class graphs (bases, virtual methods, templates) with opaque classes / templates are judged "
    "differentially on bindgen's own layout assertions (clang's numbers): an assertion that evaluates without the selection must still "
    "evaluate with it; vouching callbacks, the hide annotation and blocklist+opaque overlaps are selection modes.",
    "Trust as C02. Compile failures that are consequences of recorded C01/C07 findings (packed vs align, opaque types and derives) are counted inconclusive.",
    "runtime monitoring: differential C<->Rust probes + inventory predicates under blocklist/opaque selections",
    "DESIGN.md §4 C10")

chk("C06", "exploration",
    "Generated C type graphs x 8 targets (5 Linux architectures, 2 windows-msvc, wasm32) x both assertion forms (const block / #[test] "
    "functions) x namespaces, plus C++ template instantiations used as fields. vf-inv extracts every assertion (type, kind, field, "
    "number); completeness is checked against the generator's own record model (size + alignment + one offset per named non-bit-field "
    "member, opaque records size + alignment, instantiations size + alignment), correctness against a constant table compiled by "
    "`clang --target=T -S -emit-llvm`, and --no-layout-tests must remove exactly the assertion items.",
    "clang --target defines the numbers; no Rust is compiled for non-host targets (assertion evaluation on the host is C01/C02).",
    "runtime monitoring: cross-target differential of asserted numbers vs clang constant tables + model-driven completeness",
    "DESIGN.md §4 C06")

chk("C04", "exploration",
    "Generated C libraries (all scalar kinds, _Bool, char signedness, enums, typedefs, const/non-const pointers, array parameters, "
    "by-value aggregates straddling the SysV classes, callbacks handed out by C, variadic tails, __asm__ labels, const and non-const "
    "globals) compiled by clang and linked with a Rust caller generated from the model; every argument/return/global value is fixed by "
    "the orchestrator and observed on the other side; declared parameter/return kinds, signedness, widths and pointer constness are "
    "recovered from the bindings by trait inference on the function items and compared with C; link failures name the missing symbols.",
    "Also: C++ class libraries (const/static/virtual/overloaded methods, constructors, destructors, inheritance, namespaces, by-value "
    "aggregates) whose member functions are identified by their mangled symbols and called from a C++ and a Rust driver with transcript "
    "comparison; ms_abi / noreturn functions, function-typedef callbacks, asm labels; symbol-name text checks for 6 non-host targets. "
    "Calls are executed on the x86_64 SysV host only.",
    "runtime monitoring: differential call/return/global observation across the FFI boundary",
    "DESIGN.md §4 C04")

chk("C16", "exploration",
    "Generated headers of static / static inline functions (bodies print what they receive and return orchestrator-fixed values) over "
    "scalars, _Bool, typedefs, enums, pointers, array parameters, by-value aggregates, callbacks; default and custom suffix and wrapper "
    "paths; variadic statics must get neither binding nor wrapper; a list of hostile declarators. The emitted wrapper is compiled by clang "
    "with the same flags, `llvm-nm` defined externals must equal {name+suffix} of the bound statics, link names must point at the "
    "wrappers, and one executable runs each function once directly from C and once through the Rust binding; both logs must be equal.",
    "x86_64 host, clang 14; C++ mode only through its recorded finding.",
    "runtime monitoring: compile + symbol-set oracle and differential direct-vs-binding execution logs",
    "DESIGN.md §4 C16")

chk("C05", "exploration",
    "Generated headers of object-like macros from a typed expression grammar (all literal bases/suffixes, char and string literals with "
    "escapes, floats incl. hex floats, unary/binary/ternary operators, casts, sizeof, references, #undef/redefinition, hostile bodies), "
    "enums (negative, duplicate, > 32-bit, 64-bit unsigned, fixed underlying types, unnamed) and const variables of every scalar kind, "
    "under the six enum styles and the macro-typing options. A clang-compiled C program prints class (_Generic), width, signedness and "
    "value of every constant; a rustc-compiled program prints the same for every constant bindgen emitted, typed through trait "
    "inference. Omitted macros are counted, never failed.",
    "clang 14 (LP64 host) defines the value; my evaluator only keeps generated expressions free of undefined behaviour and classifies mismatches for known-finding signatures.",
    "runtime monitoring: differential C<->Rust constant probes",
    "DESIGN.md §4 C05")

chk("C08", "exploration",
    "(1) Generated plain-data type graphs x random subsets of the 2^6 derive options (+ rust enum style, --no-<trait> patterns): "
    "bindgen's derive lists are compared with a direct recursive specification of the documented rules, and a withheld trait counts "
    "only if rustc also accepts the derive when it is added to a copy of the bindings (two independent oracles must concur). "
    "(2) Generated graphs with --impl-debug / --impl-partialeq / --with-derive-default: a Rust program fills objects member by member "
    "and checks that every member of a hand-written Default is zero, that == is true for identical objects and false after "
    "changing exactly one member or bit-field (each in turn), and that {:?} does not panic; a sample runs under Miri for UB in the "
    "generated impls and accessors.",
    "My derivability specification covers the plain-data subset; spec-only disagreements are notes. Padding bytes are not inspected: a typed move does not preserve padding, so 'all-zero including padding' is observed member-wise only.",
    "runtime monitoring: specification + rustc concurrence oracle, and executed behavioural probes (native + Miri)",
    "DESIGN.md §4 C08")
