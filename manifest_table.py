# Table of claimed checks (exec'd by tools_manifest.py)
NOT_YET = {}

chk("C03", "exploration",
    "Exhaustive native sweep of every (storage size, bit offset, width) triple through all accessor entry points of the "
    "embedded bit-field unit against a reference bit-vector model, the boundary subset again under Miri (UB / out-of-bounds), "
    "plus generated C records whose bit-fields are written/read on both sides of the FFI boundary with whole-object comparison. "
    "Runtime monitoring: the verdict is an oracle over observed executions; it says nothing about records not generated.",
    "Trusts: the 20-line bit-vector model; clang 14 as definition of C bit-field layout/values; rustc/Miri semantics; x86_64 little-endian host only.",
    "runtime monitoring: reference-model differential sweep (native + Miri) and C<->Rust differential probes",
    "DESIGN.md §4 C03")
