#!/usr/bin/env python3
"""Regenerates MANIFEST.json from the table below (kept in one place so it stays valid)."""
import json, os, subprocess
V = os.path.dirname(os.path.abspath(__file__))
ALL = ["C%02d" % i for i in range(1, 19)]

CHECKS = {}
def chk(pid, category, text, note, technique, design_ref):
    CHECKS[pid] = dict(category=category, text=text, note=note, technique=technique, design_ref=design_ref)

exec(open(os.path.join(V, "manifest_table.py")).read())

hooks = subprocess.run(["git", "-C", "/repo", "log", "--format=%H %s", "--grep=^verif hook"], capture_output=True, text=True).stdout.strip().splitlines()
m = {
 "version": 1,
 "setup_cmd": "./vf setup",
 "hooks": {
  "guard": "--cfg bindgen_verif (rustc cfg; additionally inert at run time unless $BINDGEN_VERIF_LOG is set)",
  "enable": "RUSTFLAGS='--cfg bindgen_verif' CARGO_TARGET_DIR=/verif/.build/target cargo build --release --offline -p bindgen-cli (done by every check through vflib/build.py; helper crates in /verif/rs link /repo/bindgen the same way)",
  "baseline_off_cmd": "cd /repo && CARGO_NET_OFFLINE=true cargo test --workspace --no-fail-fast --offline",
  "source_commits": [h.split()[0] for h in hooks][::-1],
  "add_only": True,
 },
 "engines": [
  {"name": "vf", "path": "vf", "serves_properties": sorted(CHECKS), "kind_free_text": "python3 orchestrator: seeded generators, differential/metamorphic/reference-model oracles over observed executions, evidence + replay + known-findings"},
  {"name": "vf-bf", "path": "rs/vf-bf", "serves_properties": ["C03"], "kind_free_text": "native + Miri sweep of bindgen's embedded bitfield unit against a bit-vector model"},
  {"name": "vf-inv", "path": "rs/vf-inv", "serves_properties": ["C06", "C07", "C08", "C09", "C10", "C14", "C15", "C18"], "kind_free_text": "syn-based inventory of a bindings file (items, derives, extern blocks, layout assertions, gated-construct census)"},
  {"name": "vf-driver", "path": "rs/vf-driver", "serves_properties": ["C11", "C12", "C13", "C15", "C17"], "kind_free_text": "in-process driver of the bindgen library built from /repo with hooks on (histories, threads, callbacks, round-trip, formatter faults)"},
 ],
 "checks": [],
 "not_applicable": [],
 "notes": "All checks rebuild bindgen from /repo's working tree (cargo fingerprinting makes that a no-op when unchanged). Exit 0 held / 1 VIOLATION / 2 harness problem (inconclusive; never a verdict). Known findings: known_findings.json (see DESIGN.md §3.5, §6).",
}
for pid in ALL:
    if pid in CHECKS:
        c = CHECKS[pid]
        m["checks"].append({
            "property_id": pid,
            "quick_cmd": "./vf check %s --tier quick" % pid,
            "thorough_cmd": "./vf check %s --tier thorough" % pid,
            "evidence_file": "evidence/%s.json" % pid,
            "replay_cmd_template": "./vf replay {path}",
            "engine": "vf",
            "level_claimed": {"category": c["category"], "text": c["text"], "design_ref": c["design_ref"]},
            "level_note": c["note"],
            "technique": c["technique"],
        })
    else:
        m["not_applicable"].append({"property_id": pid, "reason": NOT_YET.get(pid, "check not built yet in this round; designed in DESIGN.md §4")})
json.dump(m, open(os.path.join(V, "MANIFEST.json"), "w"), indent=1)
print("wrote MANIFEST.json with", len(m["checks"]), "checks")
