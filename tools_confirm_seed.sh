#!/bin/bash
# usage: tools_confirm_seed.sh <worktree> <seed-id> <property>
# Confirms a seeded change produced by a sub-agent in its scratch worktree: patch applies to /repo HEAD, builds, the pinned golden/unit tests
# still pass (3 always-failing tests allowed), the demo fails with the change and passes on the unchanged tree. Copies deliverables to /verif/seeded/<id>.
set -u
WT=$1; ID=$2; PROP=$3
OUT=/verif/seeded/$ID
mkdir -p $OUT
cd $WT || exit 2
git diff -- bindgen bindgen-cli > $OUT/patch.diff
[ -s $OUT/patch.diff ] || { echo "empty patch"; exit 2; }
git -C /repo apply --check $OUT/patch.diff || { echo "patch does not apply to /repo HEAD"; exit 2; }
export CARGO_NET_OFFLINE=true CARGO_TARGET_DIR=$WT/target
cargo build --offline -p bindgen-cli 2>&1 | tail -1
T1=$(cargo test --offline -p bindgen-tests --test tests 2>&1 | grep -E "^test result|^test .* FAILED")
T2=$(cargo test --offline -p bindgen --lib 2>&1 | grep -E "^test result")
echo "$T1"; echo "$T2"
FAILED=$(echo "$T1" | grep "^test header.* FAILED" | grep -v -E "header_atomic_constant_h|header_issue_753_h|header_ptr32_has_different_size_h" | wc -l)
cp -r $WT/seeded/. $OUT/ 2>/dev/null
cd $OUT
ARG_CHANGED=$WT/target/debug/bindgen
ARG_BASE=/repo/target/debug/bindgen
if grep -q 'worktree' demo.sh 2>/dev/null && ! grep -q 'bindgen binary' notes.md 2>/dev/null; then :; fi
timeout 900 bash demo.sh $ARG_CHANGED > demo_changed.log 2>&1; RC1=$?
timeout 900 bash demo.sh $ARG_BASE > demo_base.log 2>&1; RC0=$?
echo "unexpected test failures: $FAILED; demo with change rc=$RC1 (want != 0); demo on unchanged rc=$RC0 (want 0)"
